"""C02 - time-indexed select / insert (E3 sweep over ring states reached by real pushes).

Reference (exact rationals on the list model M[k] = observation k steps before the write position):
  valid  iff -tol <= t <= dt*(N-1)+tol
  s = t/dt ; if |dt*round(s) - t| <= tol : slot o+round(s)   (exact)
  else older = o+ceil(s), newer = o+floor(s), elapsed = dt*(ceil(s)-s)
  select = interp(M[older], M[newer], elapsed, dt) ; insert writes extrap(...) to (older, newer) only.
Positional interpolations use closed forms written here; mathematical ones are compared with float
tolerance against closed forms as well. Differential oracles: tensor-time == scalar-time per element,
insert touches no other slot, insert->select round trip for every matching pair.
"""

from __future__ import annotations

import itertools
import math
from fractions import Fraction as F

import torch

import inferno
import inferno.functional as fn
from inferno.core.infrastructure import RecordTensor

from mc.common import Tally
from mc.pool import run_shards

ID = "C02"
LEVEL = "exploration"

TAU = 2.0
RATE = 0.5

INTERPS = {
    "nearest": (fn.interp_nearest, {}),
    "previous": (fn.interp_previous, {}),
    "next": (fn.interp_next, {}),
    "linear": (fn.interp_linear, {}),
    "expdecay": (fn.interp_expdecay, {"time_constant": TAU}),
    "expratedecay": (fn.interp_expratedecay, {"rate_constant": RATE}),
}
EXTRAPS = {
    "previous": (fn.extrap_previous, {}),
    "next": (fn.extrap_next, {}),
    "neighbors": (fn.extrap_neighbors, {}),
    "nearest": (fn.extrap_nearest, {}),
    "linear_forward": (fn.extrap_linear_forward, {}),
    "linear_backward": (fn.extrap_linear_backward, {}),
    "expdecay": (fn.extrap_expdecay, {"time_constant": TAU}),
    "expratedecay": (fn.extrap_expratedecay, {"rate_constant": RATE}),
    # the documented ``adjust`` hook f of the linear extrapolations (anchored bracket end becomes f(D))
    "linear_forward+adjust": (fn.extrap_linear_forward, {"adjust": lambda d: d * 0.5 + 1.0}),
    "linear_backward+adjust": (fn.extrap_linear_backward, {"adjust": lambda d: d * 0.5 + 1.0}),
}
PAIRS = [
    ("previous", "previous"), ("next", "next"), ("nearest", "nearest"),
    ("neighbors", "nearest"), ("neighbors", "previous"), ("neighbors", "next"), ("neighbors", "linear"),
    ("linear_forward", "linear"), ("linear_backward", "linear"),
    ("linear_forward+adjust", "linear"), ("linear_backward+adjust", "linear"),
    ("expdecay", "expdecay"), ("expratedecay", "expratedecay"),
]


def ref_interp(name, prev, nxt, elapsed, dt):
    """closed forms, float64"""
    if name == "previous":
        return prev
    if name == "next":
        return nxt
    if name == "nearest":
        return nxt if elapsed / dt > 0.5 else prev
    if name == "linear":
        return prev + (nxt - prev) * (elapsed / dt)
    if name == "expdecay":
        return prev * math.exp(-elapsed / TAU)
    if name == "expratedecay":
        return prev * math.exp(-elapsed * RATE)
    raise ValueError(name)


def ref_extrap(name, x, prev, nxt, elapsed, dt):
    """documented duals: returns (value for older slot, value for newer slot)"""
    if name == "previous":
        return x, nxt
    if name == "next":
        return prev, x
    if name == "neighbors":
        return x, x
    if name == "nearest":
        return (prev, x) if elapsed > dt / 2 else (x, nxt)
    if name == "linear_forward":
        return prev, prev + (x - prev) / elapsed * dt
    if name == "linear_backward":
        return nxt - (nxt - x) / (dt - elapsed) * dt, nxt
    if name == "linear_forward+adjust":
        pv = prev * 0.5 + 1.0
        return pv, pv + (x - pv) / elapsed * dt
    if name == "linear_backward+adjust":
        nv = nxt * 0.5 + 1.0
        return nv - (nv - x) / (dt - elapsed) * dt, nv
    if name == "expdecay":
        return x * math.exp(elapsed / TAU), x * math.exp((elapsed - dt) / TAU)
    if name == "expratedecay":
        return x * math.exp(elapsed * RATE), x * math.exp((elapsed - dt) * RATE)
    raise ValueError(name)


def locate(t, dt, tol, N):
    """t, dt, tol Fractions -> ('invalid',) | ('exact', r) | ('between', ceil, floor, elapsed)"""
    if t < -tol or t > dt * (N - 1) + tol:
        return ("invalid",)
    s = t / dt
    r = round(s)  # Fraction.__round__ : half to even, like torch.round / python round on floats
    if abs(dt * r - t) <= tol:
        return ("exact", r)
    c, f = math.ceil(s), math.floor(s)
    return ("between", c, f, dt * (c - s))


def close(a, b, exact, tolr=1e-5):
    if exact:
        return a == b
    return abs(a - b) <= tolr * max(1.0, abs(b))


def half_step(t, dt):
    """time exactly midway between two samples: 'nearest' is decided by float rounding when dt is not representable"""
    return (F(t) / F(dt)) % 1 == F(1, 2)


def dyadic(t):
    d = F(t).denominator
    return d <= 64 and d & (d - 1) == 0


class Ring:
    """real RecordTensor + list model, E elements"""

    def __init__(self, dt, N, E, pushes):
        self.dt, self.N, self.E = dt, N, E
        self.mod = inferno.Module()
        # (a hair below dt*(N-1) so that a non-representable ratio such as 3.9/1.3 does not round the size up)
        RecordTensor.create(self.mod, "rec", float(dt), max(float(dt) * (N - 1) - 1e-9, 0.0), torch.zeros(E), inclusive=True)
        self.rt = self.mod.rec
        assert self.rt.recordsz == N, (self.rt.recordsz, N)
        self.M = [[0.0] * E for _ in range(N)]
        for k in range(pushes):
            vals = [float(8 * (k + 1) + 3 * e * (k % 2 + 1)) for e in range(E)]
            self.rt.push(torch.tensor(vals))
            self.M[0] = vals
            self.M = [self.M[(j - 1) % N] for j in range(N)]

    def storage_logical(self):
        p, N = self.rt.pointer, self.N
        v = self.rt.value.detach().to(torch.float64)
        return [v[(p - k) % N].tolist() for k in range(N)]


def time_grid(dt, N, tol):
    """quarter-step grid from -dt/4 to dt*(N-1)+dt/4 plus points straddling the tolerance band"""
    q = dt / 4
    g = [q * i for i in range(-1, 4 * (N - 1) + 2)]
    if tol > 0:
        for k in range(N):
            for m in (F(1, 2), 2):
                g += [dt * k + tol * m, dt * k - tol * m]
        if F(tol).denominator & (F(tol).denominator - 1) == 0:  # dyadic: the exact boundary is representable
            for k in range(N):
                g += [dt * k + tol, dt * k - tol]
    return sorted(set(g))


def shard(dtf, N, tier, pushes_list=None):
    dt = F(dtf).limit_denominator(64)
    tally = Tally()
    quick = tier == "quick"
    tols = [F(0), F(1, 1000000), dt / 4]
    nondyadic_dt = not dyadic(dt)
    if nondyadic_dt:
        # non-representable step time: only a tolerance that dominates rounding gives a defined classification
        tols = [F(1, 1000000)]
    E = 2
    for pushes in (pushes_list or range(N, 2 * N)):  # full record, every pointer position
        ring = Ring(dt, N, E, pushes)
        base_logical = ring.storage_logical()
        assert base_logical == ring.M
        for off in (0, 1, 2):
            for tol in tols:
                grid = time_grid(dt, N, tol)
                for iname, (ifn, ikw) in INTERPS.items():
                    exact_fn = iname in ("nearest", "previous", "next", "linear")
                    scalar_res = {}
                    # ---- scalar time
                    for t in grid:
                        loc = locate(t, dt, tol, N)
                        case = {"op": "select", "dt": float(dt), "N": N, "pushes": pushes, "offset": off,
                                "tol": float(tol), "time": float(t), "interp": iname, "mode": "scalar"}
                        tally.add("evaluations")
                        try:
                            got = ring.rt.select(float(t), ifn, tolerance=float(tol), offset=off, interp_kwargs=ikw)
                            got = got.to(torch.float64).tolist()
                            err = None
                        except Exception as ex:
                            got, err = None, ex
                        if loc[0] == "invalid":
                            tally.mark("outcome", "invalid")
                            if err is None:
                                tally.violation(f"select:scalar:accepted-out-of-range", case, f"time {float(t)} outside "
                                                f"[{-float(tol)}, {float(dt*(N-1)+tol)}] accepted", "ValueError", got)
                            continue
                        if err is not None:
                            tally.violation(f"select:scalar:rejected-valid", case, f"valid time {float(t)} rejected: {err}", "value", repr(err))
                            continue
                        if loc[0] == "exact":
                            exp = ring.M[(off + loc[1]) % N]
                            kind = "exact"
                        else:
                            _, c, f_, el = loc
                            exp = [ref_interp(iname, ring.M[(off + c) % N][e], ring.M[(off + f_) % N][e], float(el), float(dt)) for e in range(E)]
                            kind = "between"
                        tally.mark("outcome", (kind, iname))
                        tally.mark("nontrivial", (float(dt), N, pushes % N, off, float(tol), float(t), iname, kind))
                        scalar_res[t] = got
                        if nondyadic_dt and iname == "nearest" and half_step(t, dt):
                            scalar_res.pop(t)  # decided by float rounding: not compared, not used as a differential reference
                            continue
                        # probes next to the 1e-6 tolerance band are not dyadic: float32 arithmetic is inexact there
                        ex_ok = (exact_fn and ((dyadic(t) and not nondyadic_dt) or iname != "linear")) or kind == "exact"
                        if not all(close(g, x, ex_ok, 1e-5) for g, x in zip(got, exp)):
                            tally.violation(f"select:scalar:{kind}:{iname}", case, f"select({float(t)}) = {got}, reference {exp}", exp, got)
                    # ---- default offset of select is 1 (time 0 = most recent observation)
                    if off == 1:
                        for t in grid:
                            if t in scalar_res:
                                tally.add("evaluations")
                                try:
                                    g0 = ring.rt.select(float(t), ifn, tolerance=float(tol), interp_kwargs=ikw).to(torch.float64).tolist()
                                except Exception as ex:
                                    g0 = repr(ex)
                                if g0 != scalar_res[t]:
                                    tally.violation("select:default-offset", {"op": "select", "dt": float(dt), "N": N, "pushes": pushes, "tol": float(tol), "time": float(t),
                                                    "interp": iname, "mode": "scalar", "offset": "default"}, f"select without offset gives {g0}, with offset=1 {scalar_res[t]}")
                                    break
                    # ---- tensor time: pairs (quick: a rotating partner; linear/nearest at offset 1: all pairs)
                    valid = [t for t in grid if locate(t, dt, tol, N)[0] != "invalid"]
                    allpairs = (iname in ("linear", "nearest") and off == 1) and (not quick or N <= 3)
                    if allpairs:
                        pairs = list(itertools.product(valid, valid))
                    else:
                        pairs = [(t, valid[(i * 7 + 3) % len(valid)]) for i, t in enumerate(valid)]
                    invalid = [t for t in grid if locate(t, dt, tol, N)[0] == "invalid"]
                    pairs += [(valid[0], t) for t in invalid] + [(t, valid[-1]) for t in invalid]
                    for tdtype in (torch.float32, torch.float64):
                        if tdtype == torch.float64 and (quick and not allpairs):
                            continue
                        for (ta, tb) in pairs:
                            tally.add("evaluations")
                            case = {"op": "select", "dt": float(dt), "N": N, "pushes": pushes, "offset": off,
                                    "tol": float(tol), "time": [float(ta), float(tb)], "interp": iname,
                                    "mode": "tensor", "tdtype": str(tdtype)}
                            bad_in = locate(ta, dt, tol, N)[0] == "invalid" or locate(tb, dt, tol, N)[0] == "invalid"
                            tt = torch.tensor([float(ta), float(tb)], dtype=tdtype)
                            if tdtype == torch.float32 and nondyadic_dt and max(abs(F(float(tt[0])) - ta), abs(F(float(tt[1])) - tb)) <= F(3, 10 ** 7):
                                pass  # float32 rounding of the time is far inside the 1e-6 tolerance band
                            elif tdtype == torch.float32 and (F(float(tt[0])) != ta or F(float(tt[1])) != tb):
                                # non-dyadic probe (around tol=1e-6) is not representable in float32: the float32
                                # tensor holds a different time, whose classification is decided by rounding
                                continue
                            try:
                                got = ring.rt.select(tt, ifn, tolerance=float(tol), offset=off, interp_kwargs=ikw)
                                got = got.to(torch.float64).tolist()
                                err = None
                            except Exception as ex:
                                got, err = None, ex
                            if bad_in:
                                if err is None:
                                    tally.violation("select:tensor:accepted-out-of-range", case, "out-of-range element accepted", "ValueError", got)
                                continue
                            if err is not None:
                                tally.violation("select:tensor:rejected-valid", case, f"valid times rejected: {err}", "value", repr(err))
                                continue
                            exp = [scalar_res[ta][0], scalar_res[tb][1]] if (ta in scalar_res and tb in scalar_res) else None
                            ex_ok = exact_fn and ((dyadic(ta) and dyadic(tb) and not nondyadic_dt) or iname != "linear")
                            if exp is not None and not all(close(g, x, ex_ok) for g, x in zip(got, exp)):
                                tally.violation(f"select:tensor!=scalar:{iname}", case, f"tensor-time select {got} but scalar-time "
                                                f"selects give {exp}", exp, got)
                        # trailing D = 2
                        if valid:
                            ta, tb = valid[0], valid[-1]
                            t2 = torch.tensor([[float(ta), float(tb)], [float(tb), float(ta)]], dtype=tdtype)
                            ok32 = tdtype == torch.float64 or all(F(float(x)) in (ta, tb) for x in t2.reshape(-1))
                            if ok32 and ta in scalar_res and tb in scalar_res:
                                tally.add("evaluations")
                                try:
                                    got = ring.rt.select(t2, ifn, tolerance=float(tol), offset=off, interp_kwargs=ikw).to(torch.float64).tolist()
                                except Exception as ex:
                                    tally.violation(f"select:tensorD:raised:{type(ex).__name__}", {"op": "select", "dt": float(dt), "N": N, "pushes": pushes, "offset": off,
                                                    "tol": float(tol), "time": t2.tolist(), "interp": iname, "mode": "tensorD"}, f"valid trailing-D times rejected: {ex!r}", None, repr(ex))
                                    continue
                                exp = [[scalar_res[ta][0], scalar_res[tb][0]], [scalar_res[tb][1], scalar_res[ta][1]]]
                                if not all(close(g, x, exact_fn and not nondyadic_dt) for gr, xr in zip(got, exp) for g, x in zip(gr, xr)):
                                    tally.violation(f"select:tensorD!=scalar:{iname}", {"op": "select", "dt": float(dt), "N": N, "pushes": pushes, "offset": off,
                                                    "tol": float(tol), "time": t2.tolist(), "interp": iname, "mode": "tensorD"},
                                                    f"trailing-D select {got} but scalar selects give {exp}", exp, got)
                # ---- insert (fresh ring per call: it mutates)
                for ename, (efn, ekw) in EXTRAPS.items():
                    exact_fn = ename in ("previous", "next", "neighbors", "nearest")
                    for t in grid:
                        loc = locate(t, dt, tol, N)
                        if nondyadic_dt and ename == "nearest" and half_step(t, dt):
                            continue
                        for mode in ("scalar", "tensor"):
                            for inplace, obs64 in ((False, False), (True, False), (False, True)):
                                # obs64: a float64 observation into float32 storage - the record keeps its own dtype (documented conversion)
                                if quick and inplace and mode == "tensor" and off != 0:
                                    continue
                                if obs64 and (loc[0] != "between" or (quick and ename not in ("neighbors", "linear_forward", "expdecay"))):
                                    continue
                                r2 = Ring(dt, N, E, pushes)
                                x = [1000.0 + e for e in range(E)]
                                case = {"op": "insert", "dt": float(dt), "N": N, "pushes": pushes, "offset": off, "tol": float(tol),
                                        "time": float(t), "extrap": ename, "mode": mode, "inplace": inplace, "obs_dtype": "float64" if obs64 else "float32"}
                                tally.add("evaluations")
                                if mode == "scalar":
                                    targ = float(t)
                                else:
                                    # second element at a fixed valid grid time to mix exact/between in one call
                                    t_other = dt * ((N - 1) // 2)
                                    targ = torch.tensor([float(t), float(t_other)])
                                    if F(float(targ[0])) != t:
                                        continue
                                try:
                                    r2.rt.insert(torch.tensor(x, dtype=torch.float64 if obs64 else torch.float32), targ, efn, tolerance=float(tol), offset=off,
                                                 inplace=inplace, extrap_kwargs=ekw)
                                    err = None
                                except Exception as ex:
                                    err = ex
                                if loc[0] == "invalid":
                                    if err is None:
                                        tally.violation(f"insert:{mode}:accepted-out-of-range", case, "out-of-range time accepted", "ValueError", None)
                                    elif r2.storage_logical() != r2.M:
                                        tally.violation(f"insert:{mode}:rejected-but-wrote", case, "rejected insert modified storage", r2.M, r2.storage_logical())
                                    continue
                                if err is not None:
                                    tally.violation(f"insert:{mode}:rejected-valid", case, f"valid time rejected: {err}", None, repr(err))
                                    continue
                                if r2.rt.value.dtype != torch.float32:
                                    tally.violation(f"insert:{mode}:storage-dtype", case, f"the insert changed the storage dtype from float32 to {r2.rt.value.dtype}",
                                                    "torch.float32", str(r2.rt.value.dtype))
                                    continue
                                expM = [list(r) for r in r2.M]
                                elems = [(0, loc)] if mode == "tensor" else [(e, loc) for e in range(E)]
                                if mode == "tensor":
                                    elems.append((1, locate(t_other, dt, tol, N)))
                                for e, lc in elems:
                                    if lc[0] == "exact":
                                        expM[(off + lc[1]) % N][e] = x[e]
                                    else:
                                        _, c, f_, el = lc
                                        pv, nv = ref_extrap(ename, x[e], r2.M[(off + c) % N][e], r2.M[(off + f_) % N][e], float(el), float(dt))
                                        if (off + c) % N == (off + f_) % N:
                                            # N == 1: both brackets are the same slot; the property does not say which wins
                                            expM[(off + c) % N][e] = None
                                        else:
                                            expM[(off + c) % N][e] = pv
                                            expM[(off + f_) % N][e] = nv
                                got = r2.storage_logical()
                                okk = True
                                illcond = ename.startswith("linear_") and not dyadic(t)
                                inexact = nondyadic_dt and (ename.startswith("linear_") or ename in ("expdecay", "expratedecay"))
                                for k in range(N):
                                    for e in range(E):
                                        if expM[k][e] is None:
                                            continue
                                        if illcond and expM[k][e] != r2.M[k][e]:
                                            continue  # slope through a 1e-6 wide interval: value undefined in float32
                                        if not close(got[k][e], expM[k][e], (exact_fn or loc[0] == "exact") and not (nondyadic_dt and not exact_fn)):
                                            okk = False
                                kind = loc[0]
                                tally.mark("nontrivial", (float(dt), N, pushes % N, off, float(tol), float(t), ename, kind, mode, inplace))
                                if not okk:
                                    # distinguish stray writes from wrong values
                                    touched = [(k, e) for k in range(N) for e in range(E) if got[k][e] != r2.M[k][e]]
                                    allowed = [(k, e) for k in range(N) for e in range(E) if expM[k][e] is None or expM[k][e] != r2.M[k][e]]
                                    stray = [z for z in touched if z not in allowed]
                                    what = "stray-write" if stray else "value"
                                    tally.violation(f"insert:{mode}:{kind}:{what}:{ename}", case, f"after insert logical storage {got}, reference {expM}", expM, got)
                                    continue
                                # ---- round trip with every matching interpolation
                                if mode == "scalar" and not inplace and N >= 2 and not illcond:
                                    for (en, inn) in PAIRS:
                                        if en != ename:
                                            continue
                                        ifn, ikw = INTERPS[inn]
                                        tally.add("evaluations")
                                        try:
                                            back = r2.rt.select(float(t), ifn, tolerance=float(tol), offset=off, interp_kwargs=ikw).to(torch.float64).tolist()
                                        except Exception as ex:
                                            tally.violation(f"roundtrip:select-raised:{type(ex).__name__}", {**case, "interp": inn}, f"select at the time just "
                                                            f"inserted at raised {ex!r}", x, repr(ex))
                                            continue
                                        if not all(abs(b - xx) <= 1e-3 for b, xx in zip(back, x)):
                                            tally.violation(f"roundtrip:{en}->{inn}:{kind}", {**case, "interp": inn}, f"insert then select at {float(t)} "
                                                            f"returned {back}, inserted {x}", x, back)
    tally.sample({"dt": float(dt), "N": N, "example_times": [float(t) for t in time_grid(dt, N, dt / 4)[:8]]})
    return tally


def variant_shard(dtf, N):
    """(1) non-inclusive records: the valid time range is [0, dt*(N-1)] +- tol although duration = dt*N;
    (2) integer storage: scalar-time and tensor-time selects agree with each other and with the reference"""
    tally = Tally()
    dt = F(dtf).limit_denominator(64)
    E = 2
    # ---- (1) non-inclusive record
    for tol in (F(0), dt / 4):
        for pushes in (N, N + 1):
            mod = inferno.Module()
            RecordTensor.create(mod, "rec", float(dt), max(float(dt) * N - 1e-9, 0.0), torch.zeros(E), inclusive=False)
            rt = mod.rec
            if rt.recordsz != N:
                raise RuntimeError(f"harness: record size {rt.recordsz} != {N}")
            for k in range(pushes):
                rt.push(torch.tensor([float(k + 1), float(2 * k + 1)]))
            limit = dt * (N - 1)
            for t in (limit, limit + tol, limit + tol + dt / 4, dt * N, dt * N + tol, limit + dt / 2):
                valid = t <= limit + tol
                for mode in ("scalar", "tensor"):
                    for op in ("select", "insert"):
                        tally.add("evaluations")
                        targ = float(t) if mode == "scalar" else torch.full((E,), float(t))
                        case = {"op": op, "record": "non-inclusive", "dt": float(dt), "N": N, "tol": float(tol), "time": float(t), "mode": mode, "pushes": pushes}
                        before = rt.value.detach().clone()
                        try:
                            if op == "select":
                                rt.select(targ, fn.interp_previous, tolerance=float(tol))
                            else:
                                rt.insert(torch.tensor([7.0, 9.0]), targ, fn.extrap_neighbors, tolerance=float(tol), inplace=False)
                            err = None
                        except ValueError as ex:
                            err = ex
                        except Exception as ex:
                            tally.violation(f"variant:exception:{op}:{type(ex).__name__}", case, repr(ex))
                            continue
                        if valid and err is not None:
                            tally.violation(f"{op}:{mode}:rejected-valid:non-inclusive", case, f"time {float(t)} <= dt*(N-1)+tol rejected: {err}")
                        if not valid and err is None:
                            tally.violation(f"{op}:{mode}:accepted-out-of-range:non-inclusive", case, f"time {float(t)} > dt*(N-1)+tol = {float(limit + tol)} accepted "
                                            f"(record duration {float(dt * N)})")
                        if not valid and not torch.equal(before, rt.value.detach()) and op == "insert":
                            tally.violation(f"insert:{mode}:out-of-range-wrote:non-inclusive", case, "an out-of-range insert modified storage")
                        rt.value = before
                        tally.mark("nontrivial", ("noninc", float(dt), N, float(tol), float(t), mode, op))
    # ---- (2) integer storage
    for pushes in range(N, 2 * N):
        mod = inferno.Module()
        RecordTensor.create(mod, "rec", float(dt), max(float(dt) * (N - 1) - 1e-9, 0.0), torch.zeros(E, dtype=torch.int64), inclusive=True)
        rt = mod.rec
        M = [[0, 0] for _ in range(N)]
        for k in range(pushes):
            vals = [8 * (k + 1), 16 * (k + 1) + 4]
            rt.push(torch.tensor(vals))
            M[0] = vals
            M = [M[(j - 1) % N] for j in range(N)]
        tol = F(0)
        for iname in ("nearest", "previous", "next", "linear", "expdecay"):
            ifn, ikw = INTERPS[iname]
            for t in time_grid(dt, N, tol):
                loc = locate(t, dt, tol, N)
                if loc[0] == "invalid":
                    continue
                tally.add("evaluations")
                case = {"op": "select", "record": "int64 storage", "dt": float(dt), "N": N, "pushes": pushes, "time": float(t), "interp": iname}
                try:
                    a = rt.select(float(t), ifn, tolerance=0.0, interp_kwargs=ikw).to(torch.float64).tolist()
                    b = rt.select(torch.full((E,), float(t)), ifn, tolerance=0.0, interp_kwargs=ikw).to(torch.float64).tolist()
                except Exception as ex:
                    tally.violation(f"variant:int-storage:exception:{type(ex).__name__}", case, repr(ex))
                    continue
                if loc[0] == "exact":
                    exp = [float(v) for v in M[(1 + loc[1]) % N]]
                else:
                    _, c, f_, el = loc
                    exp = [ref_interp(iname, float(M[(1 + c) % N][e]), float(M[(1 + f_) % N][e]), float(el), float(dt)) for e in range(E)]
                if any(abs(x - y) > 1e-5 * max(1, abs(y)) for x, y in zip(a, b)):
                    tally.violation(f"select:tensor!=scalar:int-storage:{iname}", case, f"scalar-time {a} vs tensor-time {b}", b, a)
                elif any(abs(x - y) > 1e-5 * max(1, abs(y)) for x, y in zip(b, exp)):
                    tally.violation(f"select:int-storage:{iname}", case, f"select {b}, reference {exp}", exp, b)
                tally.mark("nontrivial", ("int", float(dt), N, pushes, float(t), iname))
    # ---- (3) select / insert after the record was resized in the middle of a run (push ... -> duration= -> select): the
    # time index keeps addressing "k steps before present"; samples older than the old size read as the zero fill
    for pushes in range(N, 2 * N):
        for N2 in (N - 1, N + 1, N + 2):
            if N2 < 1:
                continue
            mod = inferno.Module()
            RecordTensor.create(mod, "rec", float(dt), max(float(dt) * (N - 1) - 1e-9, 0.0), torch.zeros(E), inclusive=True)
            rt = mod.rec
            hist = []
            for k in range(pushes):
                vals = [float(8 * (k + 1)), float(16 * (k + 1) + 4)]
                rt.push(torch.tensor(vals))
                hist.append(vals)
            case0 = {"record": "resized mid-run", "dt": float(dt), "N": N, "pushes": pushes, "new_size": N2}
            try:
                rt.duration = max(float(dt) * (N2 - 1) - 1e-9, 0.0)
            except Exception as ex:
                tally.violation(f"variant:resize:exception:{type(ex).__name__}", case0, repr(ex))
                continue
            if rt.recordsz != N2:
                continue  # the size formula itself is C13's
            keep = min(N, N2)
            M2 = [hist[-1 - k] if k < keep else [0.0, 0.0] for k in range(N2)]  # k steps before present
            for k in range(N2):
                for mode in ("scalar", "tensor"):
                    tally.add("evaluations")
                    t = float(dt * k)
                    targ = t if mode == "scalar" else torch.full((E,), t)
                    case = {**case0, "op": "select", "time": t, "mode": mode}
                    try:
                        got = rt.select(targ, fn.interp_previous, tolerance=0.0, offset=1).to(torch.float64).tolist()
                    except Exception as ex:
                        tally.violation(f"variant:resize:select:exception:{type(ex).__name__}", case, repr(ex))
                        continue
                    if got != M2[k]:
                        tally.violation(f"select:{mode}:after-resize:{'grow' if N2 > N else 'shrink'}", case, f"select({t}) after the resize returned {got}, the "
                                        f"observation {k} step(s) before present is {M2[k]}", M2[k], got)
                    tally.mark("nontrivial", ("resized", float(dt), N, pushes, N2, k, mode))
            if N2 >= 2:
                tally.add("evaluations")
                try:
                    rt.insert(torch.tensor([1000.0, 1001.0]), float(dt), fn.extrap_neighbors, tolerance=0.0, offset=1, inplace=False)
                    got = [rt.select(float(dt * k), fn.interp_previous, tolerance=0.0, offset=1).tolist() for k in range(N2)]
                    exp = [([1000.0, 1001.0] if k == 1 else M2[k]) for k in range(N2)]
                    if got != exp:
                        tally.violation("insert:after-resize", {**case0, "op": "insert", "time": float(dt)}, f"after insert at dt the record reads {got}, expected {exp}", exp, got)
                except Exception as ex:
                    tally.violation(f"variant:resize:insert:exception:{type(ex).__name__}", case0, repr(ex))
    # ---- (5) defaults and the absolute tolerance: (a) insert / select without an explicit extrapolation / interpolation use the
    # documented 'nearest'; (b) the tolerance is absolute - a time that misses a grid point by 8e-6 (tolerance 1e-6) is off the grid
    # however far back it lies, for scalar and tensor times alike
    if N >= 3:
        for pushes in (N, N + 1):
            for mode in ("scalar", "tensor"):
                tally.add("evaluations")
                ra, rb = Ring(dt, N, E, pushes), Ring(dt, N, E, pushes)
                t = float(dt) * (N - 2) + float(dt) / 4
                targ = t if mode == "scalar" else torch.full((E,), t)
                case = {"record": "defaults", "dt": float(dt), "N": N, "pushes": pushes, "time": t, "mode": mode}
                try:
                    ra.rt.insert(torch.tensor([1000.0, 1001.0]), targ, tolerance=0.0, offset=1)
                    rb.rt.insert(torch.tensor([1000.0, 1001.0]), targ, fn.extrap_nearest, tolerance=0.0, offset=1)
                    if ra.storage_logical() != rb.storage_logical():
                        tally.violation(f"insert:{mode}:default-extrapolation", case, f"insert without extrap wrote {ra.storage_logical()}, with the documented default "
                                        f"extrap_nearest {rb.storage_logical()}", rb.storage_logical(), ra.storage_logical())
                    a = ra.rt.select(targ, tolerance=0.0, offset=1).tolist()
                    b = ra.rt.select(targ, fn.interp_nearest, tolerance=0.0, offset=1).tolist()
                    if a != b:
                        tally.violation(f"select:{mode}:default-interpolation", case, f"select without interp {a}, with the documented default interp_nearest {b}", b, a)
                except Exception as ex:
                    tally.violation(f"defaults:exception:{type(ex).__name__}", case, repr(ex))
                # (b) near miss far back
                tally.add("evaluations")
                rc = Ring(dt, N, E, pushes)
                tm = float(dt) * (N - 2) + 8e-6
                targ = tm if mode == "scalar" else torch.full((E,), tm)
                case = {"record": "near miss", "dt": float(dt), "N": N, "pushes": pushes, "time": tm, "tolerance": 1e-6, "mode": mode}
                try:
                    rc.rt.insert(torch.tensor([1000.0, 1001.0]), targ, fn.extrap_neighbors, tolerance=1e-6, offset=1)
                    got = rc.storage_logical()
                    exp = [list(r) for r in rc.M]
                    exp[(1 + N - 2) % N] = [1000.0, 1001.0]
                    exp[(1 + N - 1) % N] = [1000.0, 1001.0]
                    if got != exp:
                        tally.violation(f"insert:{mode}:near-miss-snapped", case, f"a time 8e-6 off the grid (tolerance 1e-6) was not treated as off-grid: storage {got}, "
                                        f"expected both bracketing slots written {exp}", exp, got)
                    tally.mark("nontrivial", ("near-miss", float(dt), N, pushes, mode))
                except Exception as ex:
                    tally.violation(f"near-miss:exception:{type(ex).__name__}", case, repr(ex))
    # ---- (4) integer-typed time tensors (whole multiples of an integral step time): same answers as the float times
    if dt == 1:
        for pushes in (N, N + 1):
            ring = Ring(dt, N, E, pushes)
            for iname in ("previous", "nearest", "linear"):
                ifn, ikw = INTERPS[iname]
                for ks in itertools.product(range(N), repeat=E):
                    tally.add("evaluations")
                    case = {"op": "select", "record": "integer time tensor", "dt": float(dt), "N": N, "pushes": pushes, "times": list(ks), "interp": iname}
                    try:
                        a = ring.rt.select(torch.tensor(list(ks), dtype=torch.int64), ifn, tolerance=0.0, offset=1, interp_kwargs=ikw).to(torch.float64).tolist()
                        b = ring.rt.select(torch.tensor([float(k) for k in ks]), ifn, tolerance=0.0, offset=1, interp_kwargs=ikw).to(torch.float64).tolist()
                    except Exception as ex:
                        tally.violation(f"select:int-times:exception:{type(ex).__name__}", case, f"{type(ex).__name__}: {ex}", None, repr(ex))
                        continue
                    exp = [ring.M[(1 + ks[e]) % N][e] for e in range(E)]
                    if a != b or a != exp:
                        tally.violation("select:int-times", case, f"int64 times {a}, float times {b}, stored observations {exp}", exp, a)
                    tally.mark("nontrivial", ("int-times", N, pushes, ks, iname))
            try:
                tally.add("evaluations")
                r2 = Ring(dt, N, E, N)
                r2.rt.insert(torch.tensor([1000.0, 1001.0]), torch.tensor([0, N - 1], dtype=torch.int64), fn.extrap_neighbors, tolerance=0.0, offset=1, inplace=False)
                got = r2.rt.select(torch.tensor([0.0, float(N - 1)]), fn.interp_previous, tolerance=0.0, offset=1).tolist()
                if got != [1000.0, 1001.0]:
                    tally.violation("insert:int-times", {"record": "integer time tensor", "N": N}, f"insert at int64 times then select returned {got}", [1000.0, 1001.0], got)
            except Exception as ex:
                tally.violation(f"insert:int-times:exception:{type(ex).__name__}", {"record": "integer time tensor", "N": N}, f"{type(ex).__name__}: {ex}", None, repr(ex))
    # ---- (6) a record that still holds its construction value (never pushed): the first modification is an in-place insert
    for mode in ("scalar", "tensor"):
        for k in range(N):
            for frac in ((F(0), F(1, 4)) if k < N - 1 else (F(0),)):
                tally.add("evaluations")
                ring = Ring(dt, N, E, 0)
                t = float(dt * k + dt * frac)
                targ = t if mode == "scalar" else torch.full((E,), t)
                case = {"record": "fresh from its construction value, first write in place", "dt": float(dt), "N": N, "time": t, "mode": mode}
                try:
                    ring.rt.insert(torch.tensor([1000.0, 1001.0]), targ, fn.extrap_neighbors, tolerance=0.0, offset=1, inplace=True)
                    exp = [list(r) for r in ring.M]
                    exp[(1 + k) % N] = [1000.0, 1001.0]
                    if frac:
                        exp[(2 + k) % N] = [1000.0, 1001.0]
                    got = ring.storage_logical()
                    if got != exp:
                        tally.violation(f"insert:{mode}:fresh-record-inplace", case, f"storage after the insert {got}, expected {exp}", exp, got)
                    tally.mark("nontrivial", ("fresh-inplace", float(dt), N, mode, k, float(frac)))
                except Exception as ex:
                    tally.violation(f"insert:fresh-record-inplace:exception:{type(ex).__name__}", case, repr(ex))
    # ---- (7) records of 0-dimensional observations answer like the one-element record (scalar times, off the grid too)
    if N >= 2:
        def pair(pushes):
            out = []
            for shp in ((), (1,)):
                m = inferno.Module()
                RecordTensor.create(m, "rec", float(dt), max(float(dt) * (N - 1) - 1e-9, 0.0), torch.zeros(shp), inclusive=True)
                for j in range(pushes):
                    m.rec.push(torch.full(shp, float(8 * (j + 1))))
                out.append(m)  # (the record only holds a weak reference to its owner)
            return out
        for pushes in (N, N + 1):
            for k in range(N - 1):
                t = float(dt * k + dt / 4)
                for iname, (ifn, ikw) in INTERPS.items():
                    tally.add("evaluations")
                    m0, m1 = pair(pushes)
                    r0, r1 = m0.rec, m1.rec
                    case = {"record": "0-d observations", "dt": float(dt), "N": N, "pushes": pushes, "time": t, "interp": iname}
                    try:
                        a = r0.select(t, ifn, tolerance=0.0, offset=1, interp_kwargs=ikw)
                        b = r1.select(t, ifn, tolerance=0.0, offset=1, interp_kwargs=ikw)
                        if tuple(a.shape) != () or float(a) != float(b[0]):
                            tally.violation("select:scalar:0-d-observations", case, f"record of 0-d observations returned shape {tuple(a.shape)} value {a.tolist()}; the "
                                            f"one-element record returns {b.tolist()}", b.tolist(), a.tolist())
                    except Exception as ex:
                        tally.violation(f"select:0-d-observations:exception:{type(ex).__name__}", case, repr(ex))
                for ename, (efn, ekw) in EXTRAPS.items():
                    tally.add("evaluations")
                    m0, m1 = pair(pushes)
                    r0, r1 = m0.rec, m1.rec
                    case = {"record": "0-d observations", "dt": float(dt), "N": N, "pushes": pushes, "time": t, "extrap": ename}
                    try:
                        r0.insert(torch.tensor(1000.0), t, efn, tolerance=0.0, offset=1, extrap_kwargs=ekw)
                        r1.insert(torch.tensor([1000.0]), t, efn, tolerance=0.0, offset=1, extrap_kwargs=ekw)
                        a, b = r0.value.reshape(-1).tolist(), r1.value.reshape(-1).tolist()
                        if tuple(r0.value.shape) != (N,) or a != b or r0.pointer != r1.pointer:
                            tally.violation("insert:scalar:0-d-observations", case, f"storage {a} (shape {tuple(r0.value.shape)}), the one-element record holds {b}", b, a)
                        tally.mark("nontrivial", ("0-d", float(dt), N, pushes, k, ename))
                    except Exception as ex:
                        tally.violation(f"insert:0-d-observations:exception:{type(ex).__name__}", case, repr(ex))
    tally.sample({"part": "variants", "dt": float(dt), "N": N})
    return tally


def run(rep):
    quick = rep.tier == "quick"
    jobs = []
    for dtf in (1.0, 0.5):
        for N in (2, 3, 4):
            jobs.append((variant_shard, (dtf, N)))
    for dtf in ((1.0, 0.5) if quick else (1.0, 0.5, 1.3)):
        for N in ((1, 2, 3, 4) if quick else (1, 2, 3, 4, 5)):
            for pushes in range(N, 2 * N):
                jobs.append((shard, (dtf, N, rep.tier, [pushes])))
    tally = run_shards(jobs, seed=rep.seed)
    rep.tally.merge(tally)
    rep.assumptions += [
        "step times 1.0 and 0.5 and times on the quarter-step grid are exactly representable, so the rational reference "
        "and the float implementation classify every explored time identically; tolerance 1e-6 is probed at 0.5x and 2x",
        "non-representable step times (e.g. 1.3) with zero tolerance are not explored: their classification is decided by "
        "float rounding that the property does not define",
        "mathematical interpolations compared with relative tolerance 1e-5",
    ]
    cov = {
        "evaluations": tally.counts.get("evaluations", 0),
        "distinct_nontrivial": len(tally.sets.get("nontrivial", ())),
        "distinct_outcomes": len(tally.sets.get("outcome", ())),
        "exhaustive": True,
        "rule": "full Cartesian product dt x N x pointer position x offset x tolerance x grid time x interpolation "
                "(scalar, per-element tensor pairs, trailing D) and x extrapolation x {scalar,tensor} x {inplace,not} for "
                "insert, each followed by the round trip with every matching interpolation; non-trivial = distinct valid "
                "(configuration, time, function, exact/between) cases",
    }
    return rep.finish(cov, floors={"evaluations": 20000, "distinct_nontrivial": 5000})


def replay(case):
    dt = F(case["dt"]).limit_denominator(64)
    ring = Ring(dt, case["N"], 2, case["pushes"])
    out = {"before_logical": ring.storage_logical()}
    tol = case["tol"]
    try:
        if case["op"] == "select":
            ifn, ikw = INTERPS[case["interp"]]
            t = case["time"]
            if isinstance(t, list):
                t = torch.tensor(t, dtype=torch.float64 if "64" in case.get("tdtype", "") else torch.float32)
            out["result"] = ring.rt.select(t, ifn, tolerance=tol, offset=case["offset"], interp_kwargs=ikw).tolist()
        else:
            efn, ekw = EXTRAPS[case["extrap"]]
            t = case["time"]
            if case["mode"] == "tensor":
                t = torch.tensor([t, float(dt * ((case["N"] - 1) // 2))])
            ring.rt.insert(torch.tensor([1000.0, 1001.0]), t, efn, tolerance=tol, offset=case["offset"], inplace=case["inplace"], extrap_kwargs=ekw)
            out["after_logical"] = ring.storage_logical()
            if "interp" in case:
                ifn, ikw = INTERPS[case["interp"]]
                out["select_back"] = ring.rt.select(case["time"], ifn, tolerance=tol, offset=case["offset"], interp_kwargs=ikw).tolist()
    except Exception as ex:
        out["raised"] = repr(ex)
    out["violations"] = []  # replay prints the observation; the verdict is the check's
    return out
