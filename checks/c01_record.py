"""C01 - RecordTensor is a faithful ring buffer under every operation order (E1, fixpoint).

Reference model: M[k] = observation k steps before the write position (list of N rows, each a
flat list of E element values) and the physical pointer p. Physical slot i holds M[(p-i) mod N].
Stored values are unique increasing integer tokens, so loss, duplication, reordering and stray
writes are all visible in a full-storage comparison after every operation.

Canonical key = (initialised, dtype, pointer, dense rank pattern of M per element). Soundness of
the merge: the ring-buffer code never branches on stored values (only on pointer, sizes, dtypes),
so two states with equal pointer/dtype and order-isomorphic contents have isomorphic futures; new
tokens are always larger than every stored one in both.
"""

from __future__ import annotations

import itertools

import torch
import torch.nn as nn

import inferno
from inferno.core.infrastructure import RecordTensor

from mc.common import Tally, scribble
from mc.explore import explore
from mc.pool import run_shards

ID = "C01"
LEVEL = "model_checking"

DT = {"float32": torch.float32, "int64": torch.int64, "bool": torch.bool, "float64": torch.float64}


def numel(shape):
    n = 1
    for s in shape:
        n *= s
    return n


class State:
    __slots__ = ("mod", "rt", "M", "p", "init", "dtype", "step")


class RingSystem:
    def __init__(self, N, shape, storage, obs_dtype, full_alphabet=True):
        self.N, self.shape, self.storage, self.obs_dtype = N, tuple(shape), storage, obs_dtype
        self.E = numel(shape)
        self.full = full_alphabet
        self.lifecycle = False
        self.config = {"N": N, "shape": list(shape), "storage": storage, "obs_dtype": obs_dtype}

    # ---- construction -------------------------------------------------------------
    def fresh(self):
        st = State()
        st.mod = inferno.Module()
        N = self.N
        if self.storage == "zeros":
            val = torch.zeros(self.shape, dtype=DT[self.obs_dtype])
        elif self.storage == "param":
            val = nn.Parameter(torch.zeros(self.shape, dtype=DT[self.obs_dtype]), requires_grad=False)
        elif self.storage == "none":
            val = None
        elif self.storage == "empty0":
            val = torch.empty(0)
        elif self.storage.startswith("empty0:"):  # typed but uninitialised storage: its dtype is the record's own
            val = torch.empty(0, dtype=DT[self.storage.split(":")[1]])
        elif self.storage.startswith("uninitbuf:"):
            val = nn.UninitializedBuffer(dtype=DT[self.storage.split(":")[1]])
        elif self.storage.startswith("zeros:"):  # initialised storage of its own dtype, fed observations of another (wider) dtype
            val = torch.zeros(self.shape, dtype=DT[self.storage.split(":")[1]])
        else:
            raise ValueError(self.storage)
        # duration N-1 inclusive gives N slots at dt=1
        RecordTensor.create(st.mod, "rec", 1.0, float(N - 1), val, inclusive=True)
        st.rt = st.mod.rec
        st.init = self.storage in ("zeros", "param") or self.storage.startswith("zeros:")
        st.M = [[0] * self.E for _ in range(N)]
        st.p = 0
        st.step = 0
        if ":" in self.storage:
            st.dtype = self.storage.split(":")[1]  # documented: the dtype of uninitialised storage is preserved
        elif self.storage == "empty0":
            st.dtype = "float32"  # documented: dtype of the empty storage is preserved
        elif self.storage == "none":
            st.dtype = self.obs_dtype  # property: adopts the observation's dtype
        else:
            st.dtype = self.obs_dtype
        return st

    def build(self, history):
        st = self.fresh()
        for op in history:
            self.step(st, op, check=False)
        return st

    # ---- tokens -------------------------------------------------------------------
    def tok(self, st, j, e):
        v = 100 * (st.step + 1) + 10 * j + e
        if self.obs_dtype == "bool":
            return bool((st.step + j + e) % 2 == 0)
        return v

    def obs_tensor(self, st, L=None):
        if L is None:
            vals = [self.tok(st, 0, e) for e in range(self.E)]
            return vals, torch.tensor(vals, dtype=DT[self.obs_dtype]).reshape(self.shape)
        vals = [[self.tok(st, j, e) for j in range(L)] for e in range(self.E)]
        return vals, torch.tensor(vals, dtype=DT[self.obs_dtype]).reshape(*self.shape, L)

    def offsets(self, o, kind):
        """per-element offsets and the argument handed to the implementation"""
        if kind == "int":
            return [o] * self.E, o
        if kind == "uni":
            offs = [o] * self.E
        else:  # heterogeneous: element e uses o + e
            offs = [o + e for e in range(self.E)]
        return offs, torch.tensor(offs, dtype=torch.int64).reshape(self.shape)

    # ---- alphabet -----------------------------------------------------------------
    def queries(self, st):
        N = self.N
        if not st.init:
            yield ("peek",)
            return
        yield ("peek",)
        yield ("latest",)
        for o in range(0, 2 * N + 1):
            yield ("read", o)
        kinds = ("int", "uni", "het") if self.E > 1 else ("int", "uni")
        for L in range(1, N + 1):
            for o in range(0, 2 * N + 1):
                for fwd in (False, True):
                    for kind in kinds:
                        yield ("readrange", L, o, fwd, kind)
        # reads are pure: the same object answers a second pass in the opposite order (longest range first, then shorter ones)
        # exactly as it answered the first - nothing a read leaves behind may leak into a later read
        for L in range(N, 0, -1):
            for kind in kinds:
                yield ("readrange", L, (L + 1) % (2 * N + 1), L % 2 == 0, kind)
            yield ("read", L)

    def mutations(self, st):
        N = self.N
        yield ("push", False)
        yield ("push", True)
        if not st.init:
            yield ("pop",)
            yield ("reset", 0)
            return
        yield ("setlatest",)
        yield ("pop",)
        yield ("dellatest",)
        if self.lifecycle and self.storage in ("zeros", "param"):  # only under C12 (checks/c12_checkpoint.py: ring_shard)
            yield ("roundtrip",)  # lifecycle: state_dict() loaded into a freshly constructed model, which replaces the live one
        for o in range(0, 2 * N + 1):
            for ip in (False, True):
                yield ("write", o, ip)
        for pos in range(0, N + 2):
            yield ("incr", pos)
            yield ("decr", pos)
        for i in range(-1, N):
            yield ("align", i)
        yield ("reset", 0)
        yield ("reset", None)
        kinds = ("int", "uni", "het") if self.E > 1 else ("int", "uni")
        omax = 2 * N if self.full else N
        for L in range(1, N + 1):
            for o in range(0, omax + 1):
                for fwd in (False, True):
                    for ip in (False, True):
                        for kind in kinds:
                            yield ("writerange", L, o, fwd, ip, kind)

    # ---- one transition on impl + model, with oracle ------------------------------
    @staticmethod
    def after_write(name, obs, keep, bad, check):
        """the caller's observation must come back untouched, and the record must hold a copy of it, not an alias:
        the tensor is overwritten right after the call, before the record is compared with the model"""
        if check and not torch.equal(obs, keep):
            bad.append((f"input-mutated:{name}", f"{name} modified the caller's observation tensor in place", keep.tolist(), obs.tolist()))
        scribble(obs)

    def step(self, st, op, check=True):
        N, E = self.N, self.E
        bad = []
        name = op[0]
        rt = st.rt
        ret = None
        expect_ret = None
        M = st.M

        def rot(pos):  # pointer moves forward by pos: M'[k] = M[(k-pos) mod N]
            st.M = [M[(k - pos) % N] for k in range(N)]
            st.p = (st.p + pos) % N

        try:
            if name == "push" or name == "setlatest":
                vals, obs = self.obs_tensor(st)
                keep = obs.clone()
                if name == "push":
                    rt.push(obs, inplace=op[1])
                else:
                    rt.latest = obs
                self.after_write(name, obs, keep, bad, check)
                if not st.init:
                    st.init = True
                M[0] = list(vals)
                rot(1)
                st.step += 1
            elif name == "pop":
                ret = rt.pop()
                if st.init:
                    rot(-1)
                    expect_ret = ("obs", st.M[0])
                else:
                    expect_ret = ("none",)
            elif name == "peek" or name == "latest":
                ret = rt.peek() if name == "peek" else rt.latest
                expect_ret = ("obs", M[1 % N]) if st.init else ("none",)
            elif name == "dellatest":
                del rt.latest
                rot(-1)
            elif name == "read":
                ret = rt.read(op[1])
                expect_ret = ("obs", M[op[1] % N])
            elif name == "write":
                vals, obs = self.obs_tensor(st)
                keep = obs.clone()
                rt.write(obs, op[1], inplace=op[2])
                self.after_write(name, obs, keep, bad, check)
                M[op[1] % N] = list(vals)
                st.step += 1
            elif name == "incr":
                r = rt.incr(op[1])
                rot(op[1])
                if check and r != st.p:
                    bad.append(("incr-return", f"incr({op[1]}) returned {r}, model pointer {st.p}", st.p, r))
            elif name == "decr":
                rt.decr(op[1])
                rot(-op[1])
            elif name == "align":
                rt.align(op[1])
                st.p = op[1] % N
            elif name == "reset":
                rt.reset(op[1])
                if op[1] is None:
                    st.p = 0
                else:
                    if st.init:
                        fillv = False if self.obs_dtype == "bool" and st.dtype == "bool" else 0
                        st.M = [[fillv] * E for _ in range(N)]
                    st.p = 0
            elif name == "roundtrip":
                import io
                old = st.mod
                buf = io.BytesIO()
                torch.save(old.state_dict(), buf)
                buf.seek(0)
                blob = torch.load(buf, weights_only=False)
                new = self.fresh()
                for _ in range((st.step % N) + 1):  # the target has run on other data before the load
                    new.rt.push(torch.full(self.shape, 1, dtype=DT[self.obs_dtype]))
                new.mod.load_state_dict(blob)
                scribble(old.rec.value.data)
                st.mod, st.rt = new.mod, new.rt
                rt = st.rt
            elif name == "readrange":
                _, L, o, fwd, kind = op
                offs, arg = self.offsets(o, kind)
                ret = rt.readrange(L, arg, forward=fwd)
                if check and kind == "int" and o == 1 and not fwd:
                    # documented defaults: offset 1 and forward=False
                    dflt = rt.readrange(L)
                    if dflt.shape != ret.shape or not torch.equal(dflt, ret):
                        bad.append(("default-arguments:readrange", f"readrange({L}) without offset/forward differs from readrange({L}, 1, forward=False)",
                                    ret.tolist(), dflt.tolist()))
                if check and kind != "int" and max(offs) <= 2 * N:
                    # the same offsets in the other integer dtypes a caller may hold them in (an unsigned one included)
                    for odt in (torch.uint8, torch.int32, torch.int16):
                        alt = rt.readrange(L, arg.to(odt), forward=fwd)
                        if alt.shape != ret.shape or not torch.equal(alt, ret):
                            bad.append((f"readrange:offset-dtype:{str(odt).split('.')[-1]}", f"{op} with the offsets as {odt} differs from the int64 result",
                                        ret.tolist(), alt.tolist()))
                exp = []
                for e in range(E):
                    if fwd:
                        exp.append([M[(offs[e] - j) % N][e] for j in range(L)])
                    else:
                        exp.append([M[(offs[e] + L - 1 - j) % N][e] for j in range(L)])
                expect_ret = ("range", exp, L)
            elif name == "writerange":
                _, L, o, fwd, ip, kind = op
                offs, arg = self.offsets(o, kind)
                vals, obs = self.obs_tensor(st, L)
                keep = obs.clone()
                rt.writerange(obs, arg, forward=fwd, inplace=ip)
                self.after_write(name, obs, keep, bad, check)
                newM = [list(r) for r in M]
                for e in range(E):
                    for j in range(L):
                        k = (offs[e] - j) % N if fwd else (offs[e] + L - 1 - j) % N
                        newM[k][e] = vals[e][j]
                st.M = newM
                st.step += 1
            else:
                raise ValueError(op)
        except Exception as ex:  # the real code raised on a legal operation
            if not check:
                raise
            return [(f"exception:{name}:{type(ex).__name__}", f"{op} raised {type(ex).__name__}: {ex}", "no exception", repr(ex))]

        if not check:
            return bad

        # ---- oracle: return value
        if expect_ret is not None:
            if expect_ret[0] == "none":
                if ret is not None:
                    bad.append((f"ret:{name}:not-none", f"{op} on uninitialised storage returned {ret!r}", None, ret))
            elif expect_ret[0] == "obs":
                exp = expect_ret[1]
                if ret is None or tuple(ret.shape) != self.shape:
                    bad.append((f"ret:{name}:shape", f"{op} returned shape {None if ret is None else tuple(ret.shape)}", list(self.shape), None if ret is None else list(ret.shape)))
                else:
                    got = ret.reshape(-1).to(torch.float64).tolist()
                    if got != [float(x) for x in exp]:
                        bad.append((f"ret:{name}:value", f"{op} returned {got}, model says {exp}", exp, got))
            else:
                exp, L = expect_ret[1], expect_ret[2]
                kindkey = "scalar" if op[4] == "int" else "tensor"
                full = ":full" if L == N else ""
                if tuple(ret.shape) != (*self.shape, L):
                    bad.append((f"ret:readrange:{kindkey}:shape{full}", f"{op} returned shape {tuple(ret.shape)} expected {(*self.shape, L)}", [*self.shape, L], list(ret.shape)))
                else:
                    got = ret.reshape(E, L).to(torch.float64).tolist()
                    if got != [[float(x) for x in r] for r in exp]:
                        bad.append((f"ret:readrange:{kindkey}:value", f"{op} returned {got}, model says {exp}", exp, got))

        # ---- oracle: complete observable state
        bad.extend(self.compare_state(st, op))
        return bad

    def compare_state(self, st, op):
        N, E = self.N, self.E
        bad = []
        rt = st.rt
        name = op[0]
        val = rt.value
        if not st.init:
            if not rt.ignored:
                bad.append((f"state:{name}:initialised-unexpectedly", f"after {op} storage is initialised", "ignored", "initialised"))
            return bad
        if rt.ignored or val is None:
            bad.append((f"state:{name}:uninitialised", f"after {op} storage is uninitialised", "initialised", "ignored"))
            return bad
        # align(-1) is accepted by the implementation and stores the (valid, equivalent) index -1:
        # positions are compared modulo the record size
        if rt.pointer % N != st.p:
            bad.append((f"state:{name}:pointer", f"after {op} pointer is {rt.pointer}, model {st.p}", st.p, rt.pointer))
        if tuple(val.shape) != (N, *self.shape):
            bad.append((f"state:{name}:storage-shape", f"after {op} storage shape {tuple(val.shape)}", [N, *self.shape], list(val.shape)))
            return bad
        if str(val.dtype) != "torch." + st.dtype:
            bad.append((f"state:{name}:dtype:{self.storage}:{self.obs_dtype}", f"after {op} storage dtype is {val.dtype}, expected torch.{st.dtype}", st.dtype, str(val.dtype)))
        got = val.detach().reshape(N, E).to(torch.float64).tolist()
        exp = [[float(x) for x in st.M[(st.p - i) % N]] for i in range(N)]
        if got != exp and rt.pointer % N == st.p:
            bad.append((f"state:{name}:contents", f"after {op} storage {got} but model {exp} (physical order, pointer {st.p})", exp, got))
        return bad

    # ---- canonical key ------------------------------------------------------------
    def canon(self, st):
        if not st.init:
            return ("uninit",)
        N, E = self.N, self.E
        cols = []
        for e in range(E):
            col = [st.M[k][e] for k in range(N)]
            ranks = {v: i for i, v in enumerate(sorted(set(col)))}
            cols.append(tuple(ranks[v] for v in col))
        return (st.dtype, st.p, tuple(cols))


def shard(N, shape, storage, obs_dtype, max_states, full_alphabet):
    tally = Tally()
    sysm = RingSystem(N, shape, storage, obs_dtype, full_alphabet)

    def nontrivial(st, op):
        # a range operation that wraps the end of storage or spans the whole record
        if op[0] == "writerange":
            L = op[1]
            return (N, tuple(shape), storage, op[0], L == N, st.p, op[2] % N, op[3], op[5])
        return None

    res = explore(sysm, tally, max_states=max_states, nontrivial=nontrivial)
    tally.mark("configs", (N, tuple(shape), storage, obs_dtype))
    if res["fixpoint"]:
        tally.add("fixpoint_configs")
    return tally


def configs(tier):
    out = []
    if tier == "quick":
        sizes = (1, 2, 3)
        shapes = ((), (2,))
    else:
        sizes = (1, 2, 3, 4, 5)
        shapes = ((), (2,), (2, 2))
    for N in sizes:
        for shape in shapes:
            E = numel(shape)
            # state-space cap: heterogeneous offsets make per-element patterns independent
            if E == 1:
                cap = None
            elif tier == "quick":
                cap = 400
            else:
                cap = 1500 if N <= 4 else 800
            full = (N <= 3) or E == 1
            out.append((N, shape, "zeros", "float32", cap, full))
            if N <= 3 and E <= 2:
                out.append((N, shape, "param", "float32", cap, full))
                for od in ("float32", "int64", "bool"):
                    out.append((N, shape, "none", od, 200 if E > 1 else None, full))
                out.append((N, shape, "empty0", "float32", 200 if E > 1 else None, full))
                out.append((N, shape, "zeros", "int64", 200 if E > 1 else None, full))
                if E == 1 or N == 2:
                    # the record has a dtype of its own although it has no storage yet; observations of another dtype
                    # (an int64 record fed float observations is left out: out-of-place range writes are documented to
                    # promote the storage dtype in that direction)
                    for decl, od in (("float64", "float32"), ("float32", "int64")):
                        out.append((N, shape, f"empty0:{decl}", od, 200 if E > 1 else None, full))
                    out.append((N, shape, "uninitbuf:float64", "float32", 200 if E > 1 else None, full))
    # non-square, multi-dimensional and singleton-dimension observations (also in the quick tier, reduced alphabet / state cap),
    # float64 and bool observations on them
    # (an initialised float32 record fed float64 observations is NOT a configuration: the docstrings of write / writerange say that
    # an out-of-place write "may cause the data type of the stored tensor to change", so no dtype can be demanded there)
    for N in (2, 3):
        for shape, od in (((2, 3), "float32"), ((1, 2), "float32"), ((2, 1), "bool"), ((2, 3), "float64")):
            if (N, shape, "zeros", od) not in [(c[0], c[1], c[2], c[3]) for c in out]:
                out.append((N, shape, "zeros", od, 150 if tier == "quick" else 600, False))
    return out


def run(rep):
    cfgs = configs(rep.tier)
    tally = run_shards([(shard, c) for c in cfgs], seed=rep.seed)
    rep.tally.merge(tally)
    c = tally.counts
    rep.assumptions += [
        "torch indexing/cat/gather/scatter/roll are trusted; only inferno's use of them is checked",
        "observations are written in the record's dtype (or int into float storage); float->int promotion by "
        "out-of-place writes is documented behaviour and not explored",
        "record sizes N<=3 (quick) / N<=5 (thorough), observation shapes (), (2,), (2,2) to fixpoint; plus (2,3), (1,2), (2,1), float64/bool "
        "observations on N in {2,3} with a reduced offset alphabet and a state cap (breadth-first, all states up to the cap fully expanded)",
    ]
    cov = {
        "states": c.get("states", 0),
        "transitions": c.get("transitions", 0),
        "traces_validated_against_impl": c.get("transitions", 0),
        "max_depth": c.get("max_depth", 0),
        "configurations": len(cfgs),
        "fixpoint_configurations": c.get("fixpoint_configs", 0),
        "capped_configurations": c.get("capped_configs", 0),
        "state_capped_configurations": c.get("state_capped_configs", 0),
        "exhaustive": c.get("capped_configs", 0) == 0,
        "exhaustive_note": "state-capped configurations are the supplementary multi-dimensional / non-square shapes; every other configuration "
                           "is explored to fixpoint",
        "distinct_nontrivial": len(tally.sets.get("nontrivial", ())),
        "evaluations": c.get("transitions", 0),
        "rule": "BFS over the canonical graph (dtype, pointer, per-element rank pattern); every transition runs the "
        "real RecordTensor and the list model and compares return value, pointer and the full storage. "
        "non-trivial = distinct (config, pointer, offset mod N, direction, offset kind, spans-whole-record) range writes explored",
        "explanation": "every transition is executed on the real implementation; there is no model-only exploration",
    }
    return rep.finish(cov, floors={"states": 50, "transitions": 5000})


def replay(case):
    cfg = case["config"]
    sysm = RingSystem(cfg["N"], tuple(cfg["shape"]), cfg["storage"], cfg["obs_dtype"])
    st = sysm.fresh()
    out = []
    for op in case["history"]:
        op = tuple(op)
        bad = sysm.step(st, op, check=True)
        out.append({"op": list(op), "violations": [b[:2] for b in bad], "pointer": st.rt.pointer,
                    "storage": None if st.rt.ignored else st.rt.value.detach().tolist()})
        if bad:
            return {"violations": [b[:2] for b in bad], "trace": out}
    return {"violations": [], "trace": out}
