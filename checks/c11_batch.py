"""C11 - batch samples never interact (E2, self-composition).

For each component and batch size, ALL tuples of per-sample input histories (every history of
length T over a 3-letter alphabet) are run batched; sample b must equal, at every step, the run of an
identically parameterised batch-size-1 copy on history b: outputs, voltages, refractory times,
currents and the logical content of every record. Learned adaptations must equal the configured
batch reduction of the per-sample adaptations.
"""

from __future__ import annotations

import itertools

import torch

import inferno
from inferno.neural import (LIF, ALIF, GLIF1, GLIF2, QIF, Izhikevich, EIF, AdEx, DeltaCurrent, DeltaPlusCurrent, SingleExponentialCurrent,
                            DoubleExponentialCurrent, LinearDense, LinearDirect, LinearLateral, Conv2D, Serial, Biclique, RecurrentSerial)

from mc.common import Tally, Guard
from mc.pool import run_shards
from checks.c03_neurons import HP, CLS, shifted_hp, ADAPT_THRESH, ADAPT_CURR, get_adapt, set_adapt

ID = "C11"
LEVEL = "exploration"
DT = 1.0


def close(a, b):
    if a.shape != b.shape:
        return False
    if a.dtype == torch.bool or b.dtype == torch.bool:
        return bool(torch.equal(a, b))
    return bool(torch.allclose(a, b, rtol=1e-6, atol=1e-6, equal_nan=True))


# ---- component factories: (make(B) -> object, step(obj, x) -> dict of observables, input letters -> tensor row)

NEURON_LETTERS = [(0.0, 0.0), (0.75, 3.0), (3.0, -1.0)]
SPIKE_LETTERS = [(0, 0), (1, 0), (1, 1)]


def learned_adaptation(a):
    """a non-zero adaptation that differs between neurons and between the K adaptation components (shape: neurons... x K)"""
    k = 1 + torch.arange(a.shape[-1], dtype=a.dtype)
    n = 1 + 0.5 * torch.arange(a[..., 0].numel(), dtype=a.dtype).reshape(a.shape[:-1])
    return 0.25 * n.unsqueeze(-1) * k


def record_contents(rt):
    if rt.ignored:
        return None
    return torch.stack([rt.read(o) for o in range(1, rt.recordsz + 1)], 0)  # (N, B, ...)


def neuron_component(cname, shifted=False, freeze="eval"):
    """freeze: how the adaptation is frozen - eval mode, or the documented ``adapt=False`` argument in training mode.
    Adaptive classes start from a non-zero (learned) adaptation shared by all samples, so that it takes part in every step."""
    hp = shifted_hp(cname) if shifted else HP[cname][0]

    def make(B):
        n = CLS[cname]((2,), DT, refrac_t=2.0, batch_size=B, **hp)
        if cname in ADAPT_THRESH + ADAPT_CURR:
            a = get_adapt(n, cname)
            set_adapt(n, cname, learned_adaptation(a))
        if freeze == "eval":
            n.eval()  # adaptation frozen
        else:
            n.train()
        return n

    def step(n, x):
        out = n(x) if freeze == "eval" else n(x, adapt=False)
        obs = {"out": out, "voltage": n.voltage, "refrac": n.refrac, "spike": n.spike}
        return obs

    def row(letter):
        scale = abs(hp.get("thresh_v", hp.get("thresh_eq_v")) - hp["rest_v"])
        return [v * scale for v in NEURON_LETTERS[letter]]

    return make, step, row, torch.float32


def synapse_component(sname, delay):
    def make(B):
        kw = dict(delay=delay, batch_size=B)
        if sname == "delta":
            return DeltaCurrent((2,), DT, spike_charge=1.0, **kw)
        if sname == "deltaplus":
            return DeltaPlusCurrent((2,), DT, spike_charge=1.0, **kw)
        if sname == "exp":
            return SingleExponentialCurrent((2,), DT, spike_charge=2.0, time_constant=2.0, **kw)
        return DoubleExponentialCurrent((2,), DT, spike_charge=2.0, tc_decay=4.0, tc_rise=1.0, **kw)

    def step(s, x):
        out = s(x)
        obs = {"out": out, "current": s.current, "spike": s.spike}
        sel = torch.full((x.shape[0], 2), float(delay))
        obs["current_at_max"] = s.current_at(sel)
        obs["spike_at_max"] = s.spike_at(sel)
        # per-sample selectors (legal under the documented shape): each sample asks for the maximum delay where it just received
        # a spike and for the present value elsewhere, so whole rows of zeros sit next to delayed rows in one call
        own = x.to(torch.float32).reshape(x.shape[0], 2) * float(delay)
        obs["current_at_own"] = s.current_at(own)
        obs["spike_at_own"] = s.spike_at(own)
        for nm in ("spike_", "current_", "pos_current_", "neg_current_"):
            rt = getattr(s, nm, None)
            if rt is not None and hasattr(rt, "recordsz"):
                rc = record_contents(rt)
                if rc is not None:
                    obs["record:" + nm] = rc.transpose(0, 1)  # (B, N, ...)
        return obs

    def row(letter):
        return list(SPIKE_LETTERS[letter])

    return make, step, row, torch.bool


def syn_ctor(kind):
    if kind == "delta":
        return DeltaCurrent.partialconstructor(spike_charge=1.0)
    return SingleExponentialCurrent.partialconstructor(spike_charge=2.0, time_constant=2.0)


def connection_component(cname, skind, delayed):
    W = torch.tensor([[1.0, 2.0], [4.0, 1.0]])

    def make(B):
        kw = dict(synapse=syn_ctor(skind), batch_size=B)
        if delayed:
            kw["delay"] = 2.0
        if cname == "dense":
            if delayed:
                kw["delay_init"] = lambda d: torch.tensor([[0.0, 1.0], [2.0, 1.0]])
            return LinearDense((2,), (2,), DT, weight_init=lambda w: W.clone(), **kw)
        if cname == "direct":
            if delayed:
                kw["delay_init"] = lambda d: torch.tensor([1.0, 2.0])
            return LinearDirect((2,), DT, weight_init=lambda w: torch.tensor([2.0, 3.0]), **kw)
        if cname == "lateral":
            if delayed:
                kw["delay_init"] = lambda d: torch.tensor([[0.0, 1.0], [2.0, 0.0]])
            return LinearLateral((2,), DT, weight_init=lambda w: W.clone(), **kw)
        if delayed:
            kw["delay_init"] = lambda d: torch.tensor([[[[1.0, 2.0]]]])
        return Conv2D(1, 2, 1, 1, DT, (1, 2), padding=(0, 1), weight_init=lambda w: torch.tensor([[[[1.0, 2.0]]]]), **kw)

    def step(c, x):
        xx = x.reshape(x.shape[0], 1, 1, 2) if cname == "conv" else x
        out = c(xx)
        return {"out": out, "syncurrent": c.syncurrent, "synspike": c.synspike}

    def row(letter):
        return list(SPIKE_LETTERS[letter])

    return make, step, row, torch.bool


def layer_component(lname):
    W1 = torch.tensor([[1.0, 2.0], [4.0, 1.0]])
    W2 = torch.tensor([[2.0, 1.0], [1.0, 3.0]])
    W3 = torch.tensor([[3.0, 0.0], [1.0, 2.0]])

    def dense(B, W):
        return LinearDense((2,), (2,), DT, synapse=syn_ctor("exp"), batch_size=B, weight_init=lambda w: W.clone())

    def lif(B):
        return LIF((2,), DT, rest_v=0.0, reset_v=-0.5, thresh_v=1.0, refrac_t=2.0, time_constant=2.0, batch_size=B)

    def make(B):
        if lname == "serial":
            return Serial(dense(B, W1), lif(B))
        if lname == "biclique":
            return Biclique([("a", dense(B, W1)), ("b", dense(B, W2))], [("n1", lif(B)), ("n2", lif(B))], combine="mean")
        return RecurrentSerial(dense(B, W1), dense(B, W2), dense(B, W3), lif(B), lif(B))

    def step(L, x):
        if lname == "serial":
            return {"out": L(x), "voltage": L.neuron.voltage, "current": L.synapse.current}
        if lname == "biclique":
            o = L({"a": (x,), "b": (~x,)})
            return {"out1": o["n1"], "out2": o["n2"], "v1": L.get_neuron("n1").voltage}
        a, b = L(x)
        return {"ff": a, "fb": b, "vff": L.feedfwd_neuron.voltage, "vfb": L.feedback_neuron.voltage}

    def row(letter):
        return list(SPIKE_LETTERS[letter])

    return make, step, row, torch.bool


def independence_shard(kind, args, T, Bs, path="ctor"):
    """path: how the batched object gets its batch size - constructor argument, or the ``batchsz`` setter on a fresh
    object built with another size (grown from 1 / shrunk from B+1); the single-sample references are always constructed."""
    tally = Tally()
    make0, step, row, dtype = {"neuron": neuron_component, "synapse": synapse_component, "connection": connection_component,
                               "layer": layer_component}[kind](*args)

    def make(B):
        if path == "ctor" or B == 1:
            return make0(B)
        if path == "rerun":
            # the object has already run at another batch size; then every component is resized through its setter and the
            # object is cleared - it must now behave like a freshly constructed one of the new size
            obj = make0(B + 1)
            step(obj, torch.tensor([row(2)] * (B + 1), dtype=dtype))
            parts = list(obj.connections_.values()) + list(obj.neurons_.values()) if kind == "layer" else [obj]
            for c in parts:
                c.batchsz = B
            obj.clear()
            return obj
        obj = make0(1 if path == "grown" else B + 1)
        obj.batchsz = B
        return obj

    hist = list(itertools.product(range(3), repeat=T))
    cfg = {"component": kind, "args": list(args), "T": T, "batch_size_set_by": path}
    pk = "" if path == "ctor" else ":" + path
    # single-sample reference runs
    single = {}
    for h in hist:
        try:
            obj = make(1)
            obs = []
            for t in range(T):
                x = torch.tensor([row(h[t])], dtype=dtype)
                obs.append({k: v.clone() for k, v in step(obj, x).items()})
            single[h] = obs
        except Exception as ex:
            tally.violation(f"exception:single:{kind}:{args[0]}:{type(ex).__name__}", {**cfg, "history": list(h)}, repr(ex))
            return tally
    for B in Bs:
        if B == 2:
            tuples = list(itertools.product(hist, repeat=2))
        else:
            # B=3: all pairs, third sample a fixed permutation of the first (forced to differ)
            tuples = [(a, b, tuple((x + 1) % 3 for x in a)) for a, b in itertools.product(hist, repeat=2)]
        for tp in tuples:
            tally.add("evaluations")
            case = {**cfg, "B": B, "histories": [list(h) for h in tp]}
            try:
                obj = make(B)
                ok = True
                for t in range(T):
                    x = torch.tensor([row(h[t]) for h in tp], dtype=dtype)
                    g = Guard(x)
                    obs = step(obj, x)
                    obs = {k: v.clone() for k, v in obs.items()}
                    g.release(tally, f"input-mutated:{kind}:{args[0]}{pk}", {**case, "step": t})
                    for k, v in obs.items():
                        for b in range(B):
                            ref = single[tp[b]][t][k]
                            got = v[b:b + 1]
                            if not close(got, ref):
                                tally.violation(f"sample-differs:{kind}:{args[0]}:{k}{pk}", {**case, "step": t, "sample": b},
                                                f"step {t}: {k}[{b}] of the batched run differs from the single-sample run of history {tp[b]}: "
                                                f"{got.reshape(-1).tolist()[:6]} vs {ref.reshape(-1).tolist()[:6]}", ref.tolist(), got.tolist())
                                ok = False
                                break
                        if not ok:
                            break
                    if not ok:
                        break
            except Exception as ex:
                tally.violation(f"exception:batched:{kind}:{args[0]}:{type(ex).__name__}{pk}", case, repr(ex))
                break
            if len(set(tp)) > 1:
                tally.mark("nontrivial", (kind, args, B, tp, path))
    tally.sample({**cfg, "alphabet": [row(i) for i in range(3)], "batch_sizes": list(Bs)})
    return tally


def adaptation_shard(cname, T):
    """new adaptation == configured reduction of the per-sample new adaptations (one step from a common adaptation)"""
    tally = Tally()
    hp = HP[cname][0]
    reductions = {"mean(default)": None, "amax": lambda x, d: x.amax(d), "sum": torch.sum}
    hist = list(itertools.product(range(3), repeat=T))
    scale = abs(hp.get("thresh_v", hp.get("thresh_eq_v")) - hp["rest_v"])
    for rname, rfn in reductions.items():
        for pair in itertools.product(hist, repeat=2):
            tally.add("evaluations")
            nb = CLS[cname]((2,), DT, refrac_t=1.0, batch_size=2, batch_reduction=rfn, **hp)
            ns = [CLS[cname]((2,), DT, refrac_t=1.0, batch_size=1, batch_reduction=rfn, **hp) for _ in range(2)]
            for t in range(T):
                common = get_adapt(nb, cname).clone()
                for n1 in ns:
                    set_adapt(n1, cname, common.clone())
                x = torch.tensor([[v * scale for v in NEURON_LETTERS[h[t]]] for h in pair])
                ob = nb(x)
                per = []
                for b, n1 in enumerate(ns):
                    o1 = n1(x[b:b + 1])
                    if not torch.equal(o1, ob[b:b + 1]):
                        tally.violation(f"adaptive:sample-differs:{cname}", {"class": cname, "reduction": rname, "histories": [list(h) for h in pair], "step": t},
                                        "batched spikes differ from the single-sample run under the same adaptation")
                    # per-sample new adaptation before reduction: single-sample reduction over a batch of one is the identity for mean/amax/sum
                    per.append(get_adapt(n1, cname).clone())
                stack = torch.stack(per, 0)
                exp = (torch.mean if rfn is None else rfn)(stack, 0)
                got = get_adapt(nb, cname)
                if not close(got, exp):
                    tally.violation(f"adaptation-reduction:{cname}:{rname}", {"class": cname, "reduction": rname, "histories": [list(h) for h in pair], "step": t},
                                    f"batched adaptation {got.reshape(-1).tolist()} != {rname} of per-sample adaptations {exp.reshape(-1).tolist()}", exp.tolist(), got.tolist())
                    break
            if pair[0] != pair[1]:
                tally.mark("nontrivial", ("adapt", cname, rname, pair))
    tally.sample({"part": "adaptation reduction", "class": cname, "reductions": list(reductions)})
    return tally


def homeostasis_batch_shard(param, how):
    """LinearHomeostasis with a sum reduction - given to the constructor or as a per-cell register_cell override of a trainer whose
    default is another reduction: for every pair of postsynaptic histories of length 2 the batched step's parts equal the sums of
    the parts of the two batch-size-1 runs (a differential: the rule itself is C09's)."""
    from inferno.learn import LinearHomeostasis
    from inferno.extra import ExactNeuron
    tally = Tally()
    T = 2
    hist = list(itertools.product((0, 1), repeat=T))

    def build(B):
        conn = LinearDense((2,), (1,), 1.0, synapse=DeltaCurrent.partialconstructor(1.0), bias=True, delay=2.0, batch_size=B,
                           weight_init=lambda w: torch.full_like(w, 0.5), bias_init=lambda b: torch.zeros_like(b), delay_init=lambda d: torch.full_like(d, 1.0))
        conn.updater = conn.defaultupdater()
        layer = Serial(conn, ExactNeuron((1,), 1.0, rest_v=-60.0, thresh_v=-45.0, batch_size=B))
        if how == "ctor":
            tr = LinearHomeostasis(0.25, 0.5, param, batch_reduction=torch.sum)
            tr.register_cell("cell", layer.cell)
        else:
            tr = LinearHomeostasis(0.25, 0.5, param, batch_reduction=torch.amax)
            tr.register_cell("cell", layer.cell, batch_reduction=torch.sum)
        return layer, tr

    def parts(layer):
        acc = getattr(layer.connection.updater, param)
        return [None if x is None else x.detach().clone().to(torch.float64) for x in (acc.pos, acc.neg)]

    def run(hs):
        B = len(hs)
        layer, tr = build(B)
        out = []
        for t in range(T):
            delattr(layer.connection.updater, param)
            layer(torch.zeros(B, 2, dtype=torch.bool), neuron_kwargs={"override": torch.tensor([[h[t]] for h in hs], dtype=torch.bool)})
            tr()
            out.append(parts(layer))
        return out

    for pair in itertools.product(hist, repeat=2):
        tally.add("evaluations")
        case = {"trainer": "homeostasis", "param": param, "sum_reduction_given_by": how, "histories": [list(h) for h in pair]}
        try:
            batched = run(list(pair))
            singles = [run([h]) for h in pair]
        except Exception as ex:
            tally.violation(f"exception:homeostasis-batch:{param}:{how}:{type(ex).__name__}", case, repr(ex))
            continue
        for t in range(T):
            for i, nm in enumerate(("pos", "neg")):
                b = batched[t][i]
                ss = [s_[t][i] for s_ in singles]
                z = torch.zeros_like(next(x for x in [b] + ss if x is not None)) if any(x is not None for x in [b] + ss) else None
                if z is None:
                    continue
                tot = sum((x if x is not None else z) for x in ss)
                bb = b if b is not None else z
                if not close(bb + z, tot + z):
                    tally.violation(f"homeostasis:batched!=sum-of-samples:{param}:{how}:{nm}", {**case, "step": t},
                                    f"step {t}: batched {nm} part {bb.reshape(-1).tolist()} but the per-sample steps sum to {tot.reshape(-1).tolist()}", tot.tolist(), bb.tolist())
                    break
        if pair[0] != pair[1]:
            tally.mark("nontrivial", ("homeo-batch", param, how, pair))
    tally.sample({"part": "homeostasis sum reduction", "param": param, "given_by": how})
    return tally


def shape_shard(kind, cname):
    """Shape generality: a neuron group / synapse of shape (1,2), (2,1) or (2,1,1) with batch size 2 behaves, element for element,
    like the flat shape-(2,) component on the same (reshaped) inputs - every pair of histories of length 3, float64 as well."""
    tally = Tally()
    T = 3
    hist = list(itertools.product(range(3), repeat=T))
    hp = shifted_hp(cname) if kind == "neuron" else None

    def build(shape, dtype64):
        if kind == "neuron":
            n = CLS[cname](shape, DT, refrac_t=2.0, batch_size=2, **hp)
            if cname in ADAPT_THRESH + ADAPT_CURR:
                a = get_adapt(n, cname)
                set_adapt(n, cname, learned_adaptation(a))
            n.eval()
        else:
            kw = dict(delay=2.0, batch_size=2)
            n = {"delta": lambda: DeltaCurrent(shape, DT, spike_charge=1.0, **kw), "deltaplus": lambda: DeltaPlusCurrent(shape, DT, spike_charge=1.0, **kw),
                 "exp": lambda: SingleExponentialCurrent(shape, DT, spike_charge=2.0, time_constant=2.0, **kw),
                 "dexp": lambda: DoubleExponentialCurrent(shape, DT, spike_charge=2.0, tc_decay=4.0, tc_rise=1.0, **kw)}[cname]()
        return n.to(torch.float64) if dtype64 else n

    def observe(n, x):
        if kind == "neuron":
            out = n(x)
            return {"out": out, "voltage": n.voltage, "refrac": n.refrac}
        out = n(x)
        sel = torch.full((*x.shape, 1), 1.0, dtype=n.current.dtype)
        return {"out": out, "current": n.current, "current_at": n.current_at(sel), "spike_at": n.spike_at(sel)}

    scale = abs(hp.get("thresh_v", hp.get("thresh_eq_v")) - hp["rest_v"]) if kind == "neuron" else None
    for shape in ((1, 2), (2, 1), (2, 1, 1)):
        for dtype64 in ((False, True) if kind == "neuron" else (False,)):
            for pair in itertools.product(hist, repeat=2):
                tally.add("evaluations")
                case = {"component": kind, "class": cname, "shape": list(shape), "float64": dtype64, "histories": [list(h) for h in pair]}
                try:
                    a, b = build(shape, dtype64), build((2,), dtype64)
                    for t in range(T):
                        if kind == "neuron":
                            rows = [[v * scale for v in NEURON_LETTERS[h[t]]] for h in pair]
                            x = torch.tensor(rows, dtype=torch.float64 if dtype64 else torch.float32)
                        else:
                            x = torch.tensor([list(SPIKE_LETTERS[h[t]]) for h in pair], dtype=torch.bool)
                        oa, ob = observe(a, x.reshape(2, *shape).clone()), observe(b, x.clone())
                        bad = None
                        for k in oa:
                            va, vb = oa[k].reshape(2, -1), ob[k].reshape(2, -1)
                            if va.dtype != vb.dtype or not close(va, vb):
                                bad = (k, va, vb)
                                break
                        if bad:
                            k, va, vb = bad
                            tally.violation(f"shape-generality:{kind}:{cname}:{k}", {**case, "step": t}, f"step {t}: {k} of the shape-{shape} component "
                                            f"{va.reshape(-1).tolist()} ({va.dtype}) vs the flat component {vb.reshape(-1).tolist()} ({vb.dtype})", vb.tolist(), va.tolist())
                            break
                except Exception as ex:
                    tally.violation(f"exception:shape-generality:{kind}:{cname}:{type(ex).__name__}", case, repr(ex))
                    break
                if pair[0] != pair[1]:
                    tally.mark("nontrivial", ("shape", kind, cname, shape, dtype64, pair))
    tally.sample({"part": "shape generality", "component": kind, "class": cname})
    return tally


def da_batch_shard(rule, conn):
    """Delay-adjusted / kernel rules with a sum reduction (and, for the three-factor ones, a per-sample reward tensor of mixed sign):
    for every pair of pre/post histories of length 2 the batched step's parts equal the sums of the two batch-size-1 steps - on
    dense (2-D weight), direct (1-D weight) and conv (4-D weight) cells, so that per-sample factors broadcast over any weight rank."""
    import checks.c18_delayadj as c18
    from checks.trainer_common import Cellspec, all_histories, step_layer
    tally = Tally()
    spec = Cellspec(conn, 2, 2) if conn != "conv" else Cellspec("conv", 1, 1)
    T = 2
    hs = all_histories(T, spec.in_bits + spec.out_bits)
    if len(hs) > 16:  # a fixed, evenly spaced sub-family of the histories (stated in the evidence): all ordered pairs of it
        hs = hs[:: len(hs) // 16][:16]
    three = rule in ("da-mstdp", "da-mstdpd")
    param = "delay" if rule in c18.DELAY_RULES else "weight"
    delays = torch.full(spec.wshape, 1.0)

    def run(hists, sig):
        B = len(hists)
        layer = spec.build(1.0, B, 2.0, delays)
        tr = c18.make(rule, "hebbian", torch.sum)
        tr.register_cell("cell", layer.cell)
        out = []
        for t in range(T):
            step_layer(layer, spec.pre_tensor([h[t][: spec.in_bits] for h in hists]), spec.post_tensor([h[t][spec.in_bits:] for h in hists]))
            if three:
                tr(torch.tensor(sig), 0.5)
            else:
                tr()
            acc = getattr(layer.connection.updater, param)
            out.append([None if x is None else x.detach().clone().to(torch.float64) for x in (acc.pos, acc.neg)])
        return out

    for pair in itertools.product(hs, repeat=2):
        tally.add("evaluations")
        sig = [1.0, -0.5]
        case = {"rule": rule, "conn": conn, "histories": [list(map(list, h)) for h in pair], "per_sample_signal": sig if three else None}
        try:
            batched = run(list(pair), sig)
            singles = [run([h], [sg]) for h, sg in zip(pair, sig)]
        except Exception as ex:
            tally.violation(f"exception:da-batch:{rule}:{conn}:{type(ex).__name__}", case, f"{type(ex).__name__}: {ex}", None, repr(ex))
            break
        bad = False
        for t in range(T):
            for i, nm in enumerate(("pos", "neg")):
                b = batched[t][i]
                ss = [s_[t][i] for s_ in singles]
                ref = next((x for x in [b] + ss if x is not None), None)
                if ref is None:
                    continue
                z = torch.zeros(spec.wshape, dtype=torch.float64)
                try:
                    tot = sum((x + z if x is not None else z) for x in ss)
                    bb = (b + z) if b is not None else z
                    okk = bb.shape == tot.shape and bool(torch.allclose(bb, tot, rtol=1e-5, atol=1e-6))
                except Exception:
                    okk = False
                if not okk:
                    tally.violation(f"da-batch:batched!=sum-of-samples:{rule}:{conn}:{nm}", {**case, "step": t},
                                    f"step {t}: batched {nm} part {None if b is None else tuple(b.shape)} {None if b is None else b.reshape(-1).tolist()[:8]} but the "
                                    f"per-sample steps sum to {tot.reshape(-1).tolist()[:8]}")
                    bad = True
                    break
            if bad:
                break
        if pair[0] != pair[1]:
            tally.mark("nontrivial", ("da-batch", rule, conn, tuple(map(tuple, pair[0])), tuple(map(tuple, pair[1]))))
    tally.sample({"part": "delay-adjusted rules, sum reduction", "rule": rule, "conn": conn})
    return tally


def run(rep):
    quick = rep.tier == "quick"
    T = 3 if quick else 4
    Bs = (2, 3)
    jobs = []
    for cname in CLS:
        jobs.append((independence_shard, ("neuron", (cname,), T, Bs)))
        for path in ("grown", "shrunk"):  # batch size assigned through the setter on a fresh object
            jobs.append((independence_shard, ("neuron", (cname, True), T, (2,), path)))  # resting potential -60
        if cname in ADAPT_THRESH + ADAPT_CURR:  # adaptation frozen by adapt=False while the module is in training mode
            jobs.append((independence_shard, ("neuron", (cname, False, "kwarg"), T, Bs)))
    for sname in ("delta", "deltaplus", "exp", "dexp"):
        for delay in (0.0, 2.0):
            jobs.append((independence_shard, ("synapse", (sname, delay), T, Bs)))
            jobs.append((independence_shard, ("synapse", (sname, delay), T, (2,), "grown" if delay else "shrunk")))
    for cname in ("dense", "direct", "lateral", "conv"):
        for skind in ("delta", "exp"):
            for delayed in (False, True):
                jobs.append((independence_shard, ("connection", (cname, skind, delayed), T, Bs)))
                if skind == "exp":
                    jobs.append((independence_shard, ("connection", (cname, skind, delayed), T, (2,), "grown" if delayed else "shrunk")))
    for lname in ("serial", "biclique", "recurrent"):
        jobs.append((independence_shard, ("layer", (lname,), T, Bs)))
        jobs.append((independence_shard, ("layer", (lname,), T, (2,), "rerun")))
    for cname in ("LIF", "ALIF", "AdEx"):
        jobs.append((independence_shard, ("neuron", (cname, True), T, (2,), "rerun")))
    for cname in ("dense", "conv"):
        jobs.append((independence_shard, ("connection", (cname, "exp", True), T, (2,), "rerun")))
    for cname in ADAPT_THRESH + ADAPT_CURR:
        jobs.append((adaptation_shard, (cname, 2 if quick else 3)))
    # trainer clause: with a sum reduction the batched training step equals the sum of the per-sample steps - net update
    # (all pairs of length-2 histories, four rule families) and part by part for a kernel whose sign changes across samples
    import checks.c08_stdp as c08
    import checks.c09_split as c09
    for kind in ("stdp", "triplet", "mstdp", "mstdpet"):
        jobs.append((c08.reduction_shard, (kind, "dense", (1, 1), 1.0, "hebbian", "sum")))
        if kind in ("mstdp", "mstdpet"):  # the documented default of the three-factor rules IS the sum
            jobs.append((c08.reduction_shard, (kind, "dense", (1, 1), 1.0, "dep", "default")))
    jobs.append((c09.kernel_parts_shard, (2 if quick else 3, 2.0)))
    for param in ("weight", "bias", "delay"):
        for how in ("ctor", "override"):
            jobs.append((homeostasis_batch_shard, (param, how)))
    for rule in ("da-stdp", "da-stdpd", "da-mstdp", "da-mstdpd", "da-kernel"):
        for conn in ("dense", "direct", "conv"):
            if quick and conn == "conv" and rule not in ("da-mstdp", "da-stdp"):
                continue
            jobs.append((da_batch_shard, (rule, conn)))
    for cname in CLS:
        jobs.append((shape_shard, ("neuron", cname)))
    for sname in ("delta", "deltaplus", "exp", "dexp"):
        jobs.append((shape_shard, ("synapse", sname)))
    tally = run_shards(jobs, seed=rep.seed)
    rep.tally.merge(tally)
    rep.assumptions += [
        "3-letter input alphabets; every pair of histories for B=2, every pair plus a permuted third sample for B=3",
        "float observables compared with tolerance 1e-6 (BLAS may order a 2-term dot product differently for different batch sizes), spikes bitwise",
        "the trainer clause re-uses the C08 reduction shard (sum reduction, all pairs of length-2 histories) and the C09 sign-changing-kernel parts shard",
    ]
    cov = {
        "evaluations": tally.counts.get("evaluations", 0),
        "distinct_nontrivial": len(tally.sets.get("nontrivial", ())),
        "components": len(jobs),
        "history_length": T,
        "exhaustive": True,
        "rule": "all tuples of per-sample histories (3-letter alphabet, length T) for every component and batch size; non-trivial = distinct "
                "tuples whose samples differ",
    }
    return rep.finish(cov, floors={"evaluations": 20000, "distinct_nontrivial": 15000})


def replay(case):
    return {"violations": [], "note": "component, batch size and histories are in the record; re-run with checks.c11_batch.independence_shard"}
