"""C14 - configuration-path independence: setters reach the same model as the constructor (E1, differential).

Nodes are configurations; edges are single setter calls. From every constructor configuration all setter
sequences up to a depth bound are applied to the real component; at every node the component is
compared with a freshly constructed one of the target configuration: getters report the
configuration, no getter other than the assigned one changed, every internal record has the same
size/shape/dtype, and from a cleared state both produce identical outputs on all short input histories.
"""

from __future__ import annotations

import itertools

import torch

import inferno
from inferno.neural import (LIF, ALIF, QIF, AdEx, DeltaCurrent, DeltaPlusCurrent, SingleExponentialCurrent, DoubleExponentialCurrent, LinearDense)
from inferno.observe import CumulativeTraceReducer, PassthroughReducer, EventReducer, CAReducer
from inferno.core.infrastructure import RecordTensor

from mc.common import Tally
from mc.pool import run_shards
from checks.c03_neurons import HP, shifted_hp

ID = "C14"
LEVEL = "model_checking"


def records_of(mod):
    """every RecordTensor attribute of a module (and submodules): name -> (recordsz, observation shape, dtype)"""
    out = {}
    for mname, m in mod.named_modules():
        for k, v in list(vars(m).items()):
            if isinstance(v, RecordTensor):
                out[f"{mname}.{k}"] = (v.recordsz, None if v.ignored else tuple(v.value.shape[1:]), None if v.ignored else str(v.value.dtype),
                                       round(v.dt, 9), round(v.duration, 9), bool(v.inclusive))
    return out


def bool_histories(T):
    letters = list(itertools.product((0, 1), repeat=2))
    return list(itertools.product(letters, repeat=T))


# ---------------------------------------------------------------------------------------
class SynapseSpec:
    name = "synapse"

    def __init__(self, cls):
        self.cls = cls
        self.kind = cls.__name__

    def configs(self):
        for dt in (1.0, 0.5):
            for dk in (0, 1, 2):
                for B in (1, 2):
                    yield {"dt": dt, "delay": dk * dt, "batchsz": B, "inplace": False}

    def setters(self, cfg):
        for v in (1.0, 0.5, 0.75):  # 0.75: delays that are not whole multiples of the step (slot count = ceil)
            yield ("dt", v)
        for v in (0.0, 1.0, 2.0):
            yield ("delay", v)
        for v in (1, 2):
            yield ("batchsz", v)
        for v in (False, True):
            yield ("inplace", v)

    def make(self, cfg):
        kw = dict(delay=cfg["delay"], batch_size=cfg["batchsz"], inplace=cfg["inplace"], interp_tol=0.0)
        if self.cls in (DeltaCurrent, DeltaPlusCurrent):
            return self.cls((2,), cfg["dt"], spike_charge=1.0, **kw)
        if self.cls is SingleExponentialCurrent:
            return self.cls((2,), cfg["dt"], spike_charge=2.0, time_constant=2.0, **kw)
        return self.cls((2,), cfg["dt"], spike_charge=2.0, tc_decay=4.0, tc_rise=1.0, **kw)

    def getters(self, c):
        return {"dt": c.dt, "delay": c.delay, "batchsz": c.batchsz, "inplace": c.inplace}

    def behaviour(self, c, hist, cfg):
        c.clear()
        B = cfg["batchsz"]
        outs = []
        grid = [0.0, cfg["dt"] / 2, cfg["dt"], cfg["delay"], cfg["delay"] + cfg["dt"] / 2, cfg["delay"] + cfg["dt"], cfg["delay"] + 2 * cfg["dt"]]
        sel = torch.tensor([[grid, grid]] * B)
        for letter in hist:
            x = torch.tensor([list(letter)] + [list(letter)[::-1]] * (B - 1), dtype=torch.bool)
            outs.append(c(x).clone())
            outs.append(c.current_at(sel).clone())
            outs.append(c.spike_at(sel).clone())
        return outs


class NeuronSpec:
    name = "neuron"

    def __init__(self, cname, cls):
        self.cls, self.kind = cls, cname

    def configs(self):
        for dt in (1.0, 0.5):
            for B in (1, 2):
                yield {"dt": dt, "batchsz": B, "dtype": "float32"}

    def setters(self, cfg):
        for v in (1.0, 0.5):
            yield ("dt", v)
        for v in (1, 2, 3):
            yield ("batchsz", v)
        yield ("dtype", "float64")

    def make(self, cfg):
        n = self.cls((2,), cfg["dt"], refrac_t=2.0, batch_size=cfg["batchsz"], **shifted_hp(self.kind))
        if cfg["dtype"] == "float64":
            n = n.to(torch.float64)
        return n

    def getters(self, c):
        # every floating-point state tensor (voltage, refractory time, adaptations, ...) must carry the configured dtype
        dts = {str(c.voltage.dtype).replace("torch.", "")} | {str(v.dtype).replace("torch.", "") for v in c.state_dict().values()
                                                               if isinstance(v, torch.Tensor) and v.is_floating_point()}
        return {"dt": c.dt, "batchsz": c.batchsz, "dtype": "+".join(sorted(dts))}

    def behaviour(self, c, hist, cfg):
        # no clear() first: the setters ran on a fresh component, whose state must already be the initial one; the
        # state is put back afterwards so that the next history starts from it
        B = cfg["batchsz"]
        scale = abs(HP[self.kind][0].get("thresh_v", HP[self.kind][0].get("thresh_eq_v")) - HP[self.kind][0]["rest_v"])
        outs = []
        c.eval()
        for letter in hist:
            row = [3.0 * scale * v for v in letter]
            x = torch.tensor([row] + [row[::-1]] * (B - 1), dtype=c.voltage.dtype)
            outs.append(c(x).clone())
            outs.append(c.voltage.clone())
            outs.append(c.refrac.clone())
        c.clear()
        return outs


class ConnectionSpec:
    name = "connection"
    kind = "LinearDense"

    def configs(self):
        for dt in (1.0, 0.5):
            for dk in (1, 2):
                for B in (1, 2):
                    yield {"dt": dt, "delay": dk * dt, "batchsz": B, "synapse": "delta"}

    def setters(self, cfg):
        for v in (1.0, 0.5, 0.75):
            yield ("dt", v)
        for v in (1, 2):
            yield ("batchsz", v)
        for v in ("delta", "exp"):
            yield ("synapse", v)

    def syn(self, kind, cfg):
        if kind == "delta":
            return DeltaCurrent((2,), cfg["dt"], spike_charge=1.0, delay=cfg["delay"], batch_size=cfg["batchsz"])
        return SingleExponentialCurrent((2,), cfg["dt"], spike_charge=2.0, time_constant=2.0, delay=cfg["delay"], batch_size=cfg["batchsz"])

    def make(self, cfg):
        def ctor(shape, step_time, delay, batch_size):
            return self.syn(cfg["synapse"], {"dt": step_time, "delay": delay, "batchsz": batch_size})

        return LinearDense((2,), (2,), cfg["dt"], synapse=ctor, delay=cfg["delay"], batch_size=cfg["batchsz"],
                           weight_init=lambda w: torch.tensor([[1.0, 2.0], [4.0, 1.0]]), delay_init=lambda d: torch.tensor([[0.0, 0.5], [0.25, 0.5]]) * cfg["delay"])

    def apply(self, c, name, value, cfg):
        if name == "synapse":
            c.synapse = self.syn(value, cfg)
        else:
            setattr(c, name, value)

    def getters(self, c):
        s = c.synapse
        kind = "delta" if isinstance(s, DeltaCurrent) else "exp"
        return {"dt": c.dt, "delay": c.delayedby, "batchsz": c.batchsz, "synapse": kind}

    def behaviour(self, c, hist, cfg):
        c.clear()
        B = cfg["batchsz"]
        outs = []
        for letter in hist:
            x = torch.tensor([list(letter)] + [list(letter)[::-1]] * (B - 1), dtype=torch.bool)
            outs.append(c(x).clone())
            outs.append(c.syncurrent.clone())
        return outs


class ReducerSpec:
    name = "reducer"

    def __init__(self, kind):
        self.kind = kind

    def configs(self):
        for dt in (1.0, 0.5):
            for dk in (0, 1, 2, 3):  # 0: the default of every reducer (a single slot)
                yield {"dt": dt, "duration": dk * dt, "inplace": False, "inclusive": False}

    fresh_per_history = True

    def apply(self, c, name, value, cfg):
        if name == "inclusive":  # the reducer's record carries the inclusivity; it is assigned on the record
            c.data_.inclusive = value
        else:
            setattr(c, name, value)

    def setters(self, cfg):
        for v in (1.0, 0.5, 0.75):
            yield ("dt", v)
        for v in (0.0, 1.0, 2.0, 3.0):
            yield ("duration", v)
        for v in (False, True):
            yield ("inplace", v)
        for v in (False, True):
            yield ("inclusive", v)

    def make(self, cfg):
        kw = dict(duration=cfg["duration"], inclusive=cfg.get("inclusive", False), inplace=cfg["inplace"])
        if self.kind == "trace":
            return CumulativeTraceReducer(cfg["dt"], 2.0, 1.0, 1.0, **kw)
        if self.kind == "nearest":
            from inferno.observe import NearestTraceReducer
            return NearestTraceReducer(cfg["dt"], 3.0, 0.5, 1.0, **kw)
        if self.kind == "ema":
            from inferno.observe import EMAReducer
            return EMAReducer(cfg["dt"], 0.25, **kw)
        if self.kind == "pass":
            return PassthroughReducer(cfg["dt"], **kw)
        if self.kind == "event":
            return EventReducer(cfg["dt"], lambda x: x > 0.5, "inf", **kw)
        return CAReducer(cfg["dt"], **kw)

    def getters(self, c):
        return {"dt": c.dt, "duration": c.duration, "inplace": c.inplace, "inclusive": bool(c.data_.inclusive)}

    def behaviour(self, c, hist, cfg):
        # the configured reducer is re-used across histories with a shape-keeping clear in between, and compared each time
        # with a reducer constructed for that history (fresh_per_history): after clear() it must behave like a new one
        outs = []
        pk = c.peek()
        outs.append(torch.tensor(float("nan")) if pk is None else pk.clone())
        for letter in hist:
            c(torch.tensor([float(v) for v in letter]))
            outs.append(c.peek().clone())
            outs.append(c.dump().clone())
        c.clear(keepshape=True)
        return outs


def same(a, b):
    if a.shape != b.shape or a.dtype != b.dtype:
        return False
    if a.dtype == torch.bool:
        return bool(torch.equal(a, b))
    return bool(torch.allclose(a, b, rtol=0, atol=0, equal_nan=True))


def shard(spec, depth, T, only_cfg=None):
    tally = Tally()
    hist = bool_histories(T)
    apply = getattr(spec, "apply", None)
    for ci, cfg0 in enumerate(spec.configs()):
        if only_cfg is not None and ci != only_cfg:
            continue
        ops = list(spec.setters(cfg0))
        for d in range(1, depth + 1):
            for seq in itertools.product(ops, repeat=d):
                # skip sequences that assign the same attribute twice in a row (covered by shorter ones)
                if any(seq[i][0] == seq[i + 1][0] for i in range(len(seq) - 1)):
                    continue
                case = {"component": spec.name, "kind": spec.kind, "constructed_with": cfg0, "setters": [list(o) for o in seq]}
                tally.add("evaluations")
                try:
                    comp = spec.make(dict(cfg0))
                except Exception as ex:
                    tally.violation(f"exception:construct:{spec.kind}:{type(ex).__name__}", case, repr(ex))
                    continue
                cfg = dict(cfg0)
                bad = False
                for (name, value) in seq:
                    before = spec.getters(comp)
                    cfg[name] = value
                    try:
                        if name == "dtype":
                            comp = comp.to(torch.float64)
                        elif apply:
                            apply(comp, name, value, cfg)
                        else:
                            setattr(comp, name, value)
                    except Exception as ex:
                        tally.violation(f"exception:set-{name}:{spec.name}:{type(ex).__name__}", case, f"{name}={value!r} raised {type(ex).__name__}: {ex}", None, repr(ex))
                        bad = True
                        break
                    after = spec.getters(comp)
                    if after.get(name) != value:
                        tally.violation(f"getter-not-updated:{spec.name}:{name}", case, f"after {name}={value!r} the getter reports {after.get(name)!r}", value, after.get(name))
                        bad = True
                    for k in after:
                        if k != name and after[k] != before[k]:
                            tally.violation(f"setter-changed-other:{spec.name}:{name}->{k}", case, f"{name}={value!r} changed {k}: {before[k]!r} -> {after[k]!r}", before[k], after[k])
                            bad = True
                    if bad:
                        break
                if bad:
                    continue
                fresh = spec.make(dict(cfg))
                tally.mark("nontrivial", (spec.name, spec.kind, tuple(sorted(cfg0.items())), seq))
                rc, rf = records_of(comp), records_of(fresh)
                if rc.keys() == rf.keys():
                    for k in rc:
                        a, b = rc[k], rf[k]
                        # uninitialised (lazy) records only have to agree on size and temporal parameters
                        if a[0] != b[0] or a[3:] != b[3:] or (a[1] is not None and b[1] is not None and a[1:3] != b[1:3]):
                            tally.violation(f"record-differs:{spec.name}:{k.split('.')[-1]}:{seq[-1][0]}", {**case, "target": cfg},
                                            f"record {k}: (size, shape, dtype, dt, duration, inclusive) = {a} after the setters, {b} in a freshly constructed component", b, a)
                            bad = True
                            break
                if bad:
                    continue
                for h in hist:
                    try:
                        # the reference is constructed anew for every history: the setter-built component is re-used (cleared by
                        # `behaviour`) across histories, so whatever a clear leaves behind shows against a component that never ran
                        fresh = spec.make(dict(cfg))
                        oa = spec.behaviour(comp, h, cfg)
                        ob = spec.behaviour(fresh, h, cfg)
                    except Exception as ex:
                        tally.violation(f"exception:behaviour:{spec.name}:{type(ex).__name__}", {**case, "history": list(h)}, repr(ex))
                        break
                    tally.add("histories")
                    if len(oa) != len(ob) or any(not same(x, y) for x, y in zip(oa, ob)):
                        k = next(i for i, (x, y) in enumerate(zip(oa, ob)) if not same(x, y))
                        tally.violation(f"behaviour-differs:{spec.name}:{spec.kind}:{seq[-1][0]}", {**case, "target": cfg, "history": list(h)},
                                        f"observation #{k}: setter-built {oa[k].reshape(-1).tolist()[:8]} vs constructor-built {ob[k].reshape(-1).tolist()[:8]} on history {h}")
                        break
    tally.sample({"component": spec.name, "kind": spec.kind, "depth": depth, "T": T})
    return tally


def specs(tier):
    out = [SynapseSpec(c) for c in (DeltaCurrent, DeltaPlusCurrent, SingleExponentialCurrent, DoubleExponentialCurrent)]
    from inferno.neural import GLIF1, GLIF2, Izhikevich, EIF
    out += [NeuronSpec(n, c) for n, c in (("LIF", LIF), ("ALIF", ALIF), ("QIF", QIF), ("AdEx", AdEx), ("GLIF1", GLIF1), ("GLIF2", GLIF2),
                                          ("Izhikevich", Izhikevich), ("EIF", EIF))]
    out += [ConnectionSpec()]
    out += [ReducerSpec(k) for k in ("trace", "pass", "event", "ca")]
    if tier != "quick":
        out += [ReducerSpec(k) for k in ("nearest", "ema")]
    return out


def run_spec(i, depth, T, tier, only_cfg=None):
    return shard(specs(tier)[i], depth, T, only_cfg)


def run(rep):
    quick = rep.tier == "quick"
    depth = 2 if quick else 3
    T = 2 if quick else 3
    n = len(specs(rep.tier))
    jobs = []
    for i, sp in enumerate(specs(rep.tier)):
        for ci, _ in enumerate(sp.configs()):
            jobs.append((run_spec, (i, depth, T, rep.tier, ci)))
    # layers have no setters of their own: every component of a layer that has already run is resized through its batchsz setter,
    # the layer is cleared, and it must then behave like a freshly constructed one (shared with C11)
    import checks.c11_batch as c11
    for lname in ("serial", "biclique", "recurrent"):
        jobs.append((c11.independence_shard, ("layer", (lname,), 2, (2,), "rerun")))
    tally = run_shards(jobs, seed=rep.seed)
    rep.tally.merge(tally)
    c = tally.counts
    rep.assumptions += [
        "components: 4 synapses, all 8 neuron classes, LinearDense (incl. synapse replacement), 4 reducers; setter values from the same small sets as "
        "the constructor configurations; dtype via .to(float64) for neurons",
        "behaviour is compared bitwise on all boolean input histories of length 2 (quick) / 3 (thorough) after clear()",
    ]
    cov = {
        "states": c.get("evaluations", 0),
        "transitions": c.get("evaluations", 0) * depth,
        "traces_validated_against_impl": c.get("histories", 0),
        "setter_sequence_depth": depth,
        "history_length": T,
        "exhaustive": True,
        "evaluations": c.get("evaluations", 0),
        "distinct_nontrivial": len(tally.sets.get("nontrivial", ())),
        "rule": "every constructor configuration x every setter sequence up to the depth bound (no immediate repeats of an attribute); nodes = "
                "(configuration, sequence); non-trivial = sequences whose getters were consistent and that were compared with a fresh component",
    }
    return rep.finish(cov, floors={"evaluations": 1000})


def replay(case):
    return {"violations": [], "note": "component kind, constructor configuration and the setter sequence are in the record"}
