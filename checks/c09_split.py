"""C09 - every trainer's LTP/LTD split is non-negative and nets to the signed rule (E2).

(a) STDP / triplet / MSTDP / MSTDPET and the delay-adjusted + kernel family: the exhaustive history shards
    of C08 and C18 are re-run here at a smaller bound; they check per step that both parts are >= 0, that
    pos - neg equals the signed rule and that each part is exactly the sum of the same-signed terms.
(b) KernelSTDP with the shipped exponential kernels on undelayed cells: kernel formula from true last spike times.
(c) LinearHomeostasis on weight / bias / delay: all postsynaptic histories x targets above and below the rate.
(d) directions on the real parameter: causal pair strengthens / anti-causal weakens under Hebbian signs, a
    negative reward flips it.
(e) routing through bounds: with an upper-bound probe that returns 0 only the depressing part is applied, and
    symmetrically for a lower-bound probe.
"""

from __future__ import annotations

import itertools
import math

import torch

import inferno
from inferno.functional import exp_stdp_post_kernel, exp_stdp_pre_kernel
from inferno.learn import STDP, TripletSTDP, MSTDP, MSTDPET, KernelSTDP, DelayAdjustedSTDP, DelayAdjustedMSTDP, LinearHomeostasis

from mc.common import Tally
from mc.pool import run_shards
from checks.trainer_common import Cellspec, all_histories, identity_reduction, F64, step_layer
import checks.c08_stdp as c08
import checks.c18_delayadj as c18

ID = "C09"
LEVEL = "model_checking"


def kernel_shard(conn, nio, T, dt, sign):
    """KernelSTDP (undelayed): update = K_post(t_post-t_pre)[>=0] + K_pre(...)[<0] from true last spike times"""
    tally = Tally()
    spec = Cellspec(conn, *nio)
    hs = all_histories(T, spec.in_bits + spec.out_bits)
    B = len(hs)
    sp, sn = c18.SIGNS[sign]
    lp, ln = sp * c18.LRP, sn * c18.LRN
    pre_bits = [[h[t][: spec.in_bits] for h in hs] for t in range(T)]
    post_bits = [[h[t][spec.in_bits:] for h in hs] for t in range(T)]
    pre_syn = torch.stack([spec.pre_syn(pre_bits[t]) for t in range(T)], 0)
    post = torch.stack([spec.post_ref(post_bits[t]) for t in range(T)], 0)
    case = {"rule": "kernel", "conn": conn, "io": list(nio), "T": T, "dt": dt, "sign": sign}
    tally.add("evaluations")
    layer = spec.build(dt, B)
    tr = KernelSTDP(exp_stdp_post_kernel, exp_stdp_pre_kernel, dict(learning_rate=lp, time_constant=c18.TCP),
                    dict(learning_rate=ln, time_constant=c18.TCN), batch_reduction=identity_reduction)
    tr.register_cell("cell", layer.cell)
    Ks = []
    z = torch.zeros(B, *spec.wshape, dtype=F64)
    for t in range(T):
        Ks.append(torch.zeros(spec.F, spec.N, dtype=F64))
        try:
            step_layer(layer, spec.pre_tensor(pre_bits[t]), spec.post_tensor(post_bits[t]))
            tr()
        except Exception as ex:
            tally.violation(f"exception:kernel:{type(ex).__name__}", {**case, "step": t}, repr(ex))
            return tally
        ref, ref_pos, ref_neg = c18.reference("kernel", sign, dt, pre_syn[: t + 1], post[: t + 1], Ks, None, 1.0, parts=True)
        acc = layer.connection.updater.weight
        pos = z if acc.pos is None else acc.pos.to(F64)
        neg = z if acc.neg is None else acc.neg.to(F64)
        exp = spec.to_weight_space(ref.sum(0))
        mask = spec.mask()
        dd = (((pos - neg) - exp).abs() * mask).reshape(B, -1).amax(1)
        bi = (dd > 1e-5).nonzero().reshape(-1)
        if len(bi):
            b = int(bi[0])
            tally.violation(f"net!=signed-rule:kernel:{sign}", {**case, "step": t, "pre_history": [pre_bits[u][b] for u in range(t + 1)],
                            "post_history": [post_bits[u][b] for u in range(t + 1)]}, f"pos-neg {(pos - neg)[b].reshape(-1).tolist()} vs kernel formula {exp[b].reshape(-1).tolist()}")
            break
        if bool((pos < -1e-9).any()) or bool((neg < -1e-9).any()):
            tally.violation("negative-part:kernel", {**case, "step": t}, "a part handed to the updater has negative entries")
            break
        pr = spec.to_weight_space(ref_pos.sum(0))
        if not torch.allclose(pos * mask, pr * mask, atol=1e-5):
            tally.violation(f"routing:kernel:{sign}:pos", {**case, "step": t}, "potentiating part is not the sum of the positive kernel terms")
            break
    tally.mark("nontrivial", ("kernel", conn, nio, T, dt, sign))
    tally.add("histories", B)
    return tally


def kernel_delayed_shard(conn, nio, T, dt, sign):
    """KernelSTDP(delayed=True) on a connection with per-synapse delays (every assignment over {0,1,2} steps): the presynaptic
    event times are read d ago, i.e. the rule sees each presynaptic spike when it *arrives* at the synapse. Reference: kernel
    formula on the last arrived presynaptic spike (arrival = spike time + delay) and the last postsynaptic spike."""
    from checks.trainer_common import shifted_pre

    tally = Tally()
    spec = Cellspec(conn, *nio)
    hs = all_histories(T, spec.in_bits + spec.out_bits)
    B = len(hs)
    sp, sn = c18.SIGNS[sign]
    lp, ln = sp * c18.LRP, sn * c18.LRN
    pre_bits = [[h[t][: spec.in_bits] for h in hs] for t in range(T)]
    post_bits = [[h[t][spec.in_bits:] for h in hs] for t in range(T)]
    pre_syn = torch.stack([spec.pre_syn(pre_bits[t]) for t in range(T)], 0)
    post = torch.stack([spec.post_ref(post_bits[t]) for t in range(T)], 0)
    idx = spec.mask().nonzero()
    for assign in itertools.product(range(3), repeat=min(len(idx), 2)):
        delays = torch.zeros(spec.wshape)
        for q, p_ in enumerate(idx):
            delays[tuple(p_.tolist())] = assign[q % len(assign)] * dt
        case = {"rule": "kernel(delayed=True)", "conn": conn, "io": list(nio), "T": T, "dt": dt, "sign": sign, "delays_in_steps": list(assign)}
        tally.add("evaluations")
        try:
            layer = spec.build(dt, B, 2 * dt, delays)
            tr = KernelSTDP(exp_stdp_post_kernel, exp_stdp_pre_kernel, dict(learning_rate=lp, time_constant=c18.TCP),
                            dict(learning_rate=ln, time_constant=c18.TCN), delayed=True, batch_reduction=identity_reduction)
            tr.register_cell("cell", layer.cell)
        except Exception as ex:
            tally.violation(f"exception:kernel-delayed:register:{type(ex).__name__}", case, repr(ex))
            continue
        arrived = shifted_pre(pre_syn, spec.delays_to_K(delays, dt))  # (T,B,F,N,L)
        Fn, N, L = spec.F, spec.N, spec.L
        last_pre = torch.full((B, Fn, N, L), float("nan"), dtype=F64)
        last_post = torch.full((B, Fn, 1, L), float("nan"), dtype=F64)
        z = torch.zeros(B, *spec.wshape, dtype=F64)
        total = torch.zeros(B, Fn, N, dtype=F64)
        tpos = torch.zeros(B, Fn, N, dtype=F64)
        for t in range(T):
            try:
                step_layer(layer, spec.pre_tensor(pre_bits[t]), spec.post_tensor(post_bits[t]))
                tr()
            except Exception as ex:
                tally.violation(f"exception:kernel-delayed:{type(ex).__name__}", {**case, "step": t}, repr(ex))
                break
            now = t * dt
            last_pre = torch.where(arrived[t], torch.full_like(last_pre, now), last_pre)
            last_post = torch.where(post[t].reshape(B, Fn, 1, L), torch.full_like(last_post, now), last_post)
            td = last_post - last_pre
            ok = ~torch.isnan(td)
            a = torch.where(ok, td.abs(), torch.zeros_like(td))
            val = lp * torch.exp(-a / c18.TCP) * ((td >= 0) & ok) + ln * torch.exp(-a / c18.TCN) * ((td < 0) & ok)
            total = total + val.sum(-1)
            tpos = tpos + val.clamp_min(0).sum(-1)
            acc = layer.connection.updater.weight
            pos = z if acc.pos is None else acc.pos.to(F64)
            neg = z if acc.neg is None else acc.neg.to(F64)
            exp = spec.to_weight_space(total)
            mask = spec.mask()
            dd = (((pos - neg) - exp).abs() * mask).reshape(B, -1).amax(1)
            bi = (dd > 1e-5).nonzero().reshape(-1)
            if len(bi):
                b = int(bi[0])
                tally.violation(f"net!=signed-rule:kernel-delayed:{sign}", {**case, "step": t, "pre_history": [pre_bits[u][b] for u in range(t + 1)],
                                "post_history": [post_bits[u][b] for u in range(t + 1)]},
                                f"step {t}: pos-neg {(pos - neg)[b].reshape(-1).tolist()} vs kernel formula on arrival times {exp[b].reshape(-1).tolist()}",
                                exp[b].tolist(), (pos - neg)[b].tolist())
                break
            if bool((pos < -1e-9).any()) or bool((neg < -1e-9).any()):
                tally.violation("negative-part:kernel-delayed", {**case, "step": t}, "a part handed to the updater has negative entries")
                break
            if not torch.allclose(pos * mask, spec.to_weight_space(tpos) * mask, atol=1e-5):
                tally.violation(f"routing:kernel-delayed:{sign}:pos", {**case, "step": t}, "potentiating part is not the sum of the positive kernel terms")
                break
        if any(assign):
            tally.mark("nontrivial", ("kernel-delayed", conn, nio, T, dt, sign, assign))
    tally.add("histories", B * 3 ** min(len(idx), 2))
    return tally


def cos_post_kernel(diff, learning_rate, time_constant, **kwargs):
    return torch.exp(diff.abs() / (-time_constant)) * torch.cos(diff) * (learning_rate * (diff >= 0).to(dtype=diff.dtype))


def cos_pre_kernel(diff, learning_rate, time_constant, **kwargs):
    return torch.exp(diff.abs() / (-time_constant)) * torch.cos(diff) * (learning_rate * (diff < 0).to(dtype=diff.dtype))


def kernel_parts_shard(T, dt):
    """a kernel that changes sign with the spike-time difference, batch of two, sum reduction: every per-sample term is routed
    by its own sign BEFORE the batch is reduced - the parts equal the sums of the per-sample parts"""
    tally = Tally()
    spec = Cellspec("dense", 1, 1)
    hs = all_histories(T, 2)
    lp, ln, tp, tn = 0.5, 0.25, 4.0, 3.0

    def term(td):
        if td != td:
            return 0.0
        k = math.exp(-abs(td) / (tp if td >= 0 else tn)) * math.cos(td)
        return (lp if td >= 0 else ln) * k

    for ha, hb in itertools.product(hs, hs):
        pair = [ha, hb]
        tally.add("evaluations")
        case = {"rule": "kernel(sign-changing)", "dt": dt, "histories": pair, "reduction": "sum"}
        layer = spec.build(dt, 2)
        tr = KernelSTDP(cos_post_kernel, cos_pre_kernel, dict(learning_rate=lp, time_constant=tp), dict(learning_rate=ln, time_constant=tn), batch_reduction=torch.sum)
        tr.register_cell("cell", layer.cell)
        last_pre, last_post = [float("nan")] * 2, [float("nan")] * 2
        pos_ref = neg_ref = 0.0
        for t in range(T):
            try:
                step_layer(layer, spec.pre_tensor([h[t][:1] for h in pair]), spec.post_tensor([h[t][1:] for h in pair]))
                tr()
            except Exception as ex:
                tally.violation(f"exception:kernel-parts:{type(ex).__name__}", {**case, "step": t}, repr(ex))
                break
            for b, h in enumerate(pair):
                if h[t][0]:
                    last_pre[b] = t * dt
                if h[t][1]:
                    last_post[b] = t * dt
                v = term(last_post[b] - last_pre[b])
                pos_ref += max(v, 0.0)
                neg_ref += max(-v, 0.0)
            acc = layer.connection.updater.weight
            gp = 0.0 if acc.pos is None else float(acc.pos)
            gn = 0.0 if acc.neg is None else float(acc.neg)
            if abs(gp - pos_ref) > 1e-5 or abs(gn - neg_ref) > 1e-5:
                tally.violation("routing:kernel:sign-changing:batch", {**case, "step": t}, f"parts (pos, neg) = ({gp}, {gn}) but the per-sample terms routed by their own "
                                f"sign sum to ({pos_ref}, {neg_ref})", [pos_ref, neg_ref], [gp, gn])
                break
        if ha != hb:
            tally.mark("nontrivial", ("kernel-parts", dt, tuple(map(tuple, ha)), tuple(map(tuple, hb))))
    tally.add("histories", len(hs) ** 2)
    tally.sample({"part": "sign-changing kernel, batch 2, sum reduction", "T": T, "dt": dt})
    return tally


def homeostasis_shard(param, plasticity, nio, T, override=False):
    """every postsynaptic history (one run each, batch size 1) x targets above and below the observed rate.
    override: plasticity, target and parameter reach the cell as register_cell overrides of a trainer with decoy defaults"""
    tally = Tally()
    from inferno.neural import LinearDense, DeltaCurrent, Serial
    from inferno.extra import ExactNeuron
    n_in, n_out = nio
    hs = all_histories(T, n_out)
    targets = (0.125, 0.5, 0.875)
    for target in targets:
        for h in hs:
            case = {"trainer": "homeostasis", "param": param, "plasticity": plasticity, "target": target, "io": list(nio), "post_history": h,
                    "per_cell_overrides": override}
            tally.add("evaluations")
            conn = LinearDense((n_in,), (n_out,), 1.0, synapse=DeltaCurrent.partialconstructor(1.0), bias=True, delay=2.0, batch_size=1,
                               weight_init=lambda w: torch.full_like(w, 0.5), bias_init=lambda b: torch.zeros_like(b), delay_init=lambda d: torch.full_like(d, 1.0))
            conn.updater = conn.defaultupdater()
            layer = Serial(conn, ExactNeuron((n_out,), 1.0, rest_v=-60.0, thresh_v=-45.0, batch_size=1))
            if override:
                decoy_param = {"weight": "bias", "bias": "delay", "delay": "weight"}[param]
                tr = LinearHomeostasis(-2 * plasticity, 1.0 - target / 2, decoy_param)
                tr.register_cell("cell", layer.cell, plasticity=plasticity, target=target, param=param)
            else:
                tr = LinearHomeostasis(plasticity, target, param)
                tr.register_cell("cell", layer.cell)
            count = torch.zeros(n_out, dtype=F64)
            for t in range(T):
                y = torch.tensor([h[t]], dtype=torch.bool)
                try:
                    delattr(layer.connection.updater, param)
                    layer(torch.zeros(1, n_in, dtype=torch.bool), neuron_kwargs={"override": y})
                    tr()
                except Exception as ex:
                    tally.violation(f"exception:homeostasis:{param}:{type(ex).__name__}", {**case, "step": t}, repr(ex))
                    break
                count += y[0].to(F64)
                rate = count / (t + 1)
                k = (target - rate) / target  # (O,)
                lam = -plasticity if param == "delay" else plasticity
                exp = lam * k if param == "bias" else (lam * k).unsqueeze(-1).expand(n_out, n_in)
                acc = getattr(layer.connection.updater, param)
                zero = torch.zeros_like(exp)
                pv = zero if acc.pos is None else (acc.pos.to(F64) + zero)
                nv = zero if acc.neg is None else (acc.neg.to(F64) + zero)
                if bool((pv < -1e-9).any()):
                    tally.violation(f"negative-part:homeostasis:{param}:pos", {**case, "step": t}, f"the potentiating part has negative entries: {pv.reshape(-1).tolist()}")
                if bool((nv < -1e-9).any()):
                    tally.violation(f"negative-part:homeostasis:{param}:neg", {**case, "step": t},
                                    f"the depressing part is negative-valued: {nv.reshape(-1).tolist()} (rate {rate.tolist()}, target {target})", ">=0", nv.tolist())
                net = pv - nv
                if not torch.allclose(net, exp, atol=1e-5):
                    tally.violation(f"net!=signed-rule:homeostasis:{param}", {**case, "step": t},
                                    f"pos-neg = {net.reshape(-1).tolist()} but the rule gives {exp.reshape(-1).tolist()} (rate {rate.tolist()}, target {target})",
                                    exp.tolist(), net.tolist())
                # direction: the parameter moves so as to bring the rate toward the target (plasticity > 0)
                if plasticity > 0:
                    for o in range(n_out):
                        row = net[o].reshape(-1)
                        if rate[o] > target + 1e-9:
                            bad = bool((row < -1e-9).any()) if param == "delay" else bool((row > 1e-9).any())
                            if bad:
                                tally.violation(f"direction:homeostasis:{param}", {**case, "step": t},
                                                f"rate {float(rate[o])} of output {o} is above the target {target} but the {param} update is {row.tolist()} "
                                                f"({'lowers the delay' if param == 'delay' else 'raises the ' + param})")
                        elif rate[o] < target - 1e-9:
                            bad = bool((row > 1e-9).any()) if param == "delay" else bool((row < -1e-9).any())
                            if bad:
                                tally.violation(f"direction:homeostasis:{param}:below", {**case, "step": t}, f"rate {float(rate[o])} below target {target}, update {row.tolist()}")
            tally.mark("nontrivial", ("homeo", param, plasticity, target, nio, tuple(map(tuple, h))))
            tally.add("histories")
    tally.sample({"trainer": "LinearHomeostasis", "param": param, "plasticity": plasticity, "targets": list(targets), "T": T})
    return tally


def direction_shard():
    """weight really moves in the documented direction (B=1, real reduction, update applied)"""
    tally = Tally()
    spec = Cellspec("dense", 1, 1)
    dt = 1.0

    def run(tr_factory, pre, post, signal=None, delayed=False):
        layer = spec.build(dt, 1, 2.0 if delayed else None, torch.tensor([[1.0]]) if delayed else None)
        tr = tr_factory()
        tr.register_cell("cell", layer.cell)
        w0 = float(layer.connection.weight)
        for t in range(len(pre)):
            step_layer(layer, spec.pre_tensor([[pre[t]]]), spec.post_tensor([[post[t]]]))
            if signal is not None:
                tr(signal, 1.0)
            else:
                tr()
            layer.connection.update()
        return float(layer.connection.weight) - w0

    heb = dict(lr_post=0.5, lr_pre=-0.25, tc_post=4.0, tc_pre=2.0)
    factories = {
        "stdp": (lambda: STDP(**heb), None),
        "triplet": (lambda: TripletSTDP(0.5, 0.125, -0.25, 0.0625, 2.0, 8.0, 3.0, 6.0), None),
        "mstdp+": (lambda: MSTDP(**heb), 1.0),
        "mstdp-": (lambda: MSTDP(**heb), -1.0),
        "mstdpet+": (lambda: MSTDPET(tc_eligibility=3.0, **heb), 1.0),
        "mstdpet-": (lambda: MSTDPET(tc_eligibility=3.0, **heb), -1.0),
        "kernel": (lambda: KernelSTDP(exp_stdp_post_kernel, exp_stdp_pre_kernel, dict(learning_rate=0.5, time_constant=4.0), dict(learning_rate=-0.25, time_constant=2.0)), None),
    }
    for gap in (1, 2, 3):
        causal = ([1] + [0] * gap, [0] * gap + [1])
        anti = ([0] * gap + [1], [1] + [0] * gap)
        for name, (fac, sig) in factories.items():
            for label, (pre, post) in (("causal", causal), ("anticausal", anti)):
                tally.add("evaluations")
                try:
                    dw = run(fac, pre, post, sig)
                except Exception as ex:
                    tally.violation(f"exception:direction:{name}:{type(ex).__name__}", {"trainer": name, "pair": label, "gap": gap}, repr(ex))
                    continue
                want = 1 if label == "causal" else -1
                if sig is not None and sig < 0:
                    want = -want
                tally.mark("nontrivial", (name, label, gap))
                if dw * want <= 0:
                    tally.violation(f"direction:{name}:{label}", {"trainer": name, "pair": label, "gap": gap, "pre": pre, "post": post, "signal": sig},
                                    f"{label} pair (gap {gap}) under Hebbian signs{' with reward ' + str(sig) if sig is not None else ''} changed the weight by {dw}", want, dw)
        # delay-adjusted rules need a delayed connection: delay 1 step, so a pre spike 2 steps before the post spike is causal
        for name, fac, sig in (("da-stdp", lambda: DelayAdjustedSTDP(lr_pos=0.5, lr_neg=-0.25, tc_pos=4.0, tc_neg=2.0), None),
                               ("da-mstdp-", lambda: DelayAdjustedMSTDP(lr_pos=0.5, lr_neg=-0.25, tc_pos=4.0, tc_neg=2.0), -1.0)):
            for label, (pre, post) in (("causal", ([1, 0, 0], [0, 0, 1])), ("anticausal", ([0, 0, 1], [1, 0, 0]))):
                tally.add("evaluations")
                dw = run(fac, pre, post, sig, delayed=True)
                want = (1 if label == "causal" else -1) * (-1 if sig is not None and sig < 0 else 1)
                if dw * want <= 0:
                    tally.violation(f"direction:{name}:{label}", {"trainer": name, "pair": label}, f"weight changed by {dw}", want, dw)
    tally.sample({"part": "directions", "trainers": list(factories)})
    return tally


def zero_probe(param, update, limit, **kw):
    return torch.zeros_like(update)


def pass_probe(param, update, limit, **kw):
    return update


def routing_shard():
    """an upper-bound probe that returns 0 leaves only the depressing part applied, and symmetrically"""
    tally = Tally()
    spec = Cellspec("dense", 1, 1)
    dt = 1.0
    hs = all_histories(3, 2)
    for sign in c08.SIGNS:
        for kind in ("stdp", "mstdpet"):
            for which in ("upper", "upper-at-0", "lower", "lower-then-upper"):
                for h in hs:
                    tally.add("evaluations")
                    layer = spec.build(dt, 1)
                    tr = c08.make_trainer(kind, sign, "cumulative", False, None)
                    tr.register_cell("cell", layer.cell)
                    acc = layer.connection.updater.weight
                    if which == "upper":
                        acc.upperbound(zero_probe, 1.0)
                    elif which == "upper-at-0":  # an upper limit of exactly 0.0 (inhibitory range) is a limit like any other
                        acc.upperbound(zero_probe, 0.0)
                    elif which == "lower":
                        acc.lowerbound(zero_probe, 0.0)
                    else:  # a pass-through upper half installed after the lower probe must leave the lower probe in place
                        acc.lowerbound(zero_probe, 0.0)
                        acc.upperbound(pass_probe, 1.0)
                    w0 = layer.connection.weight.detach().clone()
                    for t in range(3):
                        step_layer(layer, spec.pre_tensor([h[t][:1]]), spec.post_tensor([h[t][1:]]))
                        if kind == "mstdpet":
                            tr(1.0, 1.0)
                        else:
                            tr()
                    pos, neg = acc.pos, acc.neg
                    pos = torch.zeros_like(w0) if pos is None else pos.clone()
                    neg = torch.zeros_like(w0) if neg is None else neg.clone()
                    layer.connection.update()
                    dw = layer.connection.weight.detach() - w0
                    exp = -neg if which in ("upper", "upper-at-0") else pos
                    case = {"trainer": kind, "sign": sign, "probe": which, "history": h}
                    tally.mark("nontrivial", (kind, sign, which, tuple(map(tuple, h))))
                    if not torch.allclose(dw, exp, atol=1e-6):
                        tally.violation(f"bound-routing:{kind}:{which}", case, f"with a zero {which}-bound probe the weight changed by {dw.reshape(-1).tolist()}, "
                                        f"expected {exp.reshape(-1).tolist()}", exp.tolist(), dw.tolist())
    tally.sample({"part": "bound routing", "histories": len(hs)})
    return tally


def run(rep):
    quick = rep.tier == "quick"
    T1 = 3 if quick else 4
    jobs = [(direction_shard, ()), (routing_shard, ()), (kernel_parts_shard, (2 if quick else 3, 2.0))]
    if not quick:
        jobs.append((kernel_parts_shard, (3, 1.0)))
    for kind in ("stdp", "triplet", "mstdp", "mstdpet"):
        for sign in c08.SIGNS:
            sp = "stepalt" if kind in ("mstdp", "mstdpet") else "pos"
            jobs.append((c08.history_shard, (kind, "dense", (1, 1), T1, 1.0, sign, "cumulative", None, sp)))
            jobs.append((c08.history_shard, (kind, "dense", (2, 2), 2, 1.0, sign, "nearest", None, sp)))
            # hyper-parameters as per-cell overrides of a trainer built with decoy defaults (opposite signs): the split follows the cell
            jobs.append((c08.history_shard, (kind, "dense", (1, 1), T1, 1.0, sign, "cumulative", None, sp, True)))
    # per-sample reward tensors: every (sample, term) is routed by lr sign x reward sign, incl. the pure sign modes where a
    # uniform reward leaves one part empty
    for kind in ("mstdp", "mstdpet"):
        for sign in c08.SIGNS:
            jobs.append((c08.reduction_shard, (kind, "dense", (1, 1), 1.0, sign, "sum")))
            # applied after every step under every reward sign sequence: the applied change is that step's signed rule
            jobs.append((c08.applied_shard, (kind, sign, 3)))
            if kind == "mstdp":
                jobs.append((c08.applied_shard, (kind, sign, 3, True)))
            jobs.append((c08.multicell_shard, (kind, sign, 3)))
    for rule in ("da-mstdp", "da-mstdpd"):
        for sign in c18.SIGNS:
            jobs.append((c18.multicell_shard, (rule, sign, 3)))
        jobs.append((c18.multicell_shard, (rule, "hebbian", 3, -0.5)))  # negative scale: its absolute value is used, parts stay >= 0
    # two cells ending on one neuron group with different pre-side rates: each cell's split follows its own rule
    for kind in ("stdp", "triplet", "mstdp", "mstdpet"):
        jobs.append((c08.shared_neuron_shard, (kind, "cumulative", 3)))
    for rule in ("da-stdp", "da-stdpd", "da-mstdp", "da-mstdpd", "da-kernel", "da-kerneld"):
        for sign in c18.SIGNS:
            jobs.append((c18.shard, (rule, "dense", (1, 1), T1, 1.0, sign, "const")))
    # kernel keyword arguments given as tensors (kept in per-cell buffers): the split follows each kernel's own arguments
    for rule in ("da-kernel-t", "da-kerneld-t"):
        for sign in c18.SIGNS:
            jobs.append((c18.shard, (rule, "dense", (1, 1), T1 - 1, 1.0, sign, "const")))
    for sign in c18.SIGNS:
        jobs.append((kernel_shard, ("dense", (1, 1), T1 + 1, 1.0, sign)))
        jobs.append((kernel_shard, ("dense", (2, 2), 2, 1.0, sign)))
        jobs.append((kernel_shard, ("conv", (1, 1), 2, 0.5, sign)))
        jobs.append((kernel_delayed_shard, ("dense", (1, 1), T1 + 1, 1.0, sign)))
        jobs.append((kernel_delayed_shard, ("dense", (2, 2), 2, 1.0, sign)))
    for param in ("weight", "bias", "delay"):
        for lam in (0.25, -0.25):
            jobs.append((homeostasis_shard, (param, lam, (1, 1), 4 if quick else 6)))
            jobs.append((homeostasis_shard, (param, lam, (2, 2), 2 if quick else 3)))
            jobs.append((homeostasis_shard, (param, lam, (1, 1), 3 if quick else 4, True)))
    tally = run_shards(jobs, seed=rep.seed)
    rep.tally.merge(tally)
    c = tally.counts
    rep.assumptions += [
        "same driver as C08/C18 (overridden postsynaptic spikes, histories as batch with identity reduction); tolerance 1e-5",
        "homeostasis: targets {0.125,0.5,0.875} against every postsynaptic history (observed rates 0..1), plasticity +-0.25",
    ]
    cov = {
        "states": c.get("histories", 0) * T1,
        "transitions": c.get("histories", 0) * T1,
        "traces_validated_against_impl": c.get("histories", 0),
        "configurations": len(jobs),
        "exhaustive": True,
        "evaluations": c.get("evaluations", 0),
        "distinct_nontrivial": len(tally.sets.get("nontrivial", ())),
        "rule": "all pre/post histories up to the bound x every trainer x four sign modes (x delays / signals / targets); non-trivial = distinct "
                "configurations and probe histories",
    }
    return rep.finish(cov, floors={"traces_validated_against_impl": 3000, "evaluations": 500})


def replay(case):
    return {"violations": [], "note": "configuration and failing history are in the record"}
