"""C10 - Updater algebra: accumulate, reduce, bound, apply once, clear (E1 + inductive grid).

Part A (E1): BFS over all sequences of contribute / update / update(clear=False) / clear /
updatesome / del / read-accumulator events (depth bound) for every configuration of reduction
(default, constructor-supplied, set by method) and bounding; the reference is two lists of pending
parts per parameter. Oracle after every event: parameter values, accumulator pos/neg (cache
coherence), untouched sibling parameter.
Part B (E3, inductive step on a grid): for every parameter value on a 65-point grid of [min,max]
and every pair of reduced magnitudes on a grid, one update keeps the parameter inside the range for
the dependence kinds the property names; sharp bounds never move further beyond a reached limit.
"""

from __future__ import annotations

import itertools
import math

import torch
import torch.nn as nn

import inferno
import inferno.functional as fn
from inferno import Module
from inferno.neural.modeling import Accumulator, Updatable, Updater

from mc.common import Tally
from mc.explore import explore
from mc.pool import run_shards

ID = "C10"
LEVEL = "model_checking"

P0 = {"p": [0.5, -0.25], "q": [0.25, 0.75]}
PARTS = {  # trainer -> (pos, neg), dyadic so that sums are exact in float32
    1: ([0.5, 0.25], [0.125, 0.5]),
    2: ([0.25, 1.0], [0.5, 0.0625]),
    3: ([0.375, 0.0625], [0.25, 0.375]),  # only contributed straight into the accumulator, so those states are not merged with others
}
MIN, MAX = -1.0, 1.0


class Host(Module, Updatable):
    def __init__(self):
        Module.__init__(self)
        Updatable.__init__(self)
        self.p_ = nn.Parameter(torch.tensor(P0["p"]), requires_grad=False)
        self.q_ = nn.Parameter(torch.tensor(P0["q"]), requires_grad=False)

    @property
    def p(self):
        return self.p_

    @p.setter
    def p(self, v):
        self.p_.data = v

    @property
    def q(self):
        return self.q_

    @q.setter
    def q(self, v):
        self.q_.data = v

    def defaultupdater(self, *includes, **kwargs):
        return Updater(self, "p", "q", **kwargs)

    def clear(self, **kwargs):
        Updatable.clear(self, **kwargs)


def amax_red(x, dim):
    return x.amax(dim)


def halfsum_red(x, dim):
    """a reduction that is not the identity on a single part (a damped sum): the reduction runs for any number of parts"""
    return x.sum(dim) * 0.5


REDUCTIONS = {
    "default": (None, lambda cols: sum(cols)),
    "halfsum": (halfsum_red, lambda cols: sum(cols) * 0.5),
    "mean": (torch.mean, lambda cols: sum(cols) / len(cols)),
    "amax": (amax_red, lambda cols: max(cols)),
}


# reference half bounds in float64
def ref_upper(kind, P, u, kw):
    if kind is None:
        return u
    if kind == "mult":
        return (MAX - P) * u
    if kind == "smult":
        return (MAX - P) / (MAX - MIN) * u
    if kind == "power":
        return (MAX - P) ** kw["power"] * u
    if kind == "spower":
        return ((MAX - P) / (MAX - MIN)) ** kw["power"] * u
    if kind == "sharp":
        return u if MAX - P > 0 else 0.0
    raise ValueError(kind)


def ref_lower(kind, P, u, kw):
    if kind is None:
        return u
    if kind == "mult":
        return (P - MIN) * u
    if kind == "smult":
        return (P - MIN) / (MAX - MIN) * u
    if kind == "power":
        return (P - MIN) ** kw["power"] * u
    if kind == "spower":
        return ((P - MIN) / (MAX - MIN)) ** kw["power"] * u
    if kind == "sharp":
        return u if P - MIN > 0 else 0.0
    raise ValueError(kind)


HALF_UP = {"mult": (fn.bound_upper_multiplicative, {}), "smult": (fn.bound_upper_scaled_multiplicative, {"range": MAX - MIN}),
           "power": (fn.bound_upper_power, {"power": 2.0}), "spower": (fn.bound_upper_scaled_power, {"power": 2.0, "range": MAX - MIN}),
           "sharp": (fn.bound_upper_sharp, {})}
HALF_LO = {"mult": (fn.bound_lower_multiplicative, {}), "smult": (fn.bound_lower_scaled_multiplicative, {"range": MAX - MIN}),
           "power": (fn.bound_lower_power, {"power": 2.0}), "spower": (fn.bound_lower_scaled_power, {"power": 2.0, "range": MAX - MIN}),
           "sharp": (fn.bound_lower_sharp, {})}
FULL = {"mult": (fn.bound_multiplicative, {}), "smult": (fn.bound_scaled_multiplicative, {}),
        # full power forms with DIFFERENT exponents for the two sides (mu+ = 2, mu- = 3)
        "power": (fn.bound_power, {"upper_power": 2.0, "lower_power": 3.0}),
        "spower": (fn.bound_scaled_power, {"upper_power": 2.0, "lower_power": 3.0}), "sharp": (fn.bound_sharp, {})}


class St:
    pass


class UpdaterSystem:
    """config: reduction (name, how), bound (form, upper kind, lower kind)"""

    def __init__(self, red, red_how, form, ukind, lkind):
        self.red, self.red_how, self.form, self.ukind, self.lkind = red, red_how, form, ukind, lkind
        self.config = {"reduction": red, "reduction_set_by": red_how, "bound_form": form, "upper": ukind, "lower": lkind}

    def fresh(self):
        st = St()
        st.host = Host()
        if getattr(self, "f64", False):
            st.host = st.host.to(torch.float64)
        rfn = REDUCTIONS[self.red][0]
        if self.red_how == "ctor" and rfn is not None:
            st.host.updater = Updater(st.host, "p", "q", reduction=rfn)
        else:
            st.host.updater = st.host.defaultupdater()
            if self.red_how == "method":
                for name in ("p", "q"):
                    getattr(st.host.updater, name).reduction(rfn)
        acc = st.host.updater.p
        if self.form == "half":
            if self.ukind:
                f, kw = HALF_UP[self.ukind]
                acc.upperbound(f, MAX, **kw)
            if self.lkind:
                f, kw = HALF_LO[self.lkind]
                acc.lowerbound(f, MIN, **kw)
        elif self.form == "half-rev":  # the two halves installed in the other order: lower first, then upper
            if self.lkind:
                f, kw = HALF_LO[self.lkind]
                acc.lowerbound(f, MIN, **kw)
            if self.ukind:
                f, kw = HALF_UP[self.ukind]
                acc.upperbound(f, MAX, **kw)
        elif self.form == "full":
            f, kw = FULL[self.ukind]
            acc.fullbound(f, MAX, MIN, **kw)
        if self.form in ("half", "half-rev"):
            # a bystander: ANOTHER host's accumulator gets different half bounds (other forms, other limits) after p's were
            # installed, and one more is installed on a third and removed again; bounds are per accumulator, so p's are untouched
            st.other = Host()
            st.other.updater = st.other.defaultupdater()
            ou = next(k for k in HALF_UP if k != self.ukind)
            ol = next(k for k in HALF_LO if k != self.lkind)
            st.other.updater.p.upperbound(HALF_UP[ou][0], 0.25, **HALF_UP[ou][1])
            st.other.updater.q.lowerbound(HALF_LO[ol][0], -0.125, **HALF_LO[ol][1])
            st.other.updater.p.lowerbound(HALF_LO[ol][0], -0.125, **HALF_LO[ol][1])
        st.val = {k: list(v) for k, v in P0.items()}
        st.pos = {"p": [], "q": []}
        st.neg = {"p": [], "q": []}
        st.n = 0
        return st

    def build(self, history):
        st = self.fresh()
        for op in history:
            self.step(st, op, check=False)
        return st

    def queries(self, st):
        return ()

    def mutations(self, st):
        for t in (1, 2):
            for kind in ("pos", "neg", "both"):
                yield ("contrib", t, kind, "p")
        yield ("contrib", 1, "none", "p")
        yield ("contrib", 1, "both", "q")
        yield ("contrib", 2, "tensor", "q")
        yield ("contrib", 3, "direct", "p")  # straight into the accumulator: updater.p.pos = ..., updater.p.neg = ...
        yield ("update", True)
        yield ("update", False)
        yield ("clear",)
        yield ("updatesome", "p", True)
        yield ("updatesome", "q", False)
        yield ("updatesome0",)  # an empty selection: applies nothing and clears nothing (pending parts stay pending)
        yield ("updatesome2", ("p", "q"), True)
        yield ("updatesome2", ("q", "p"), True)
        if self.form in ("half", "half-rev"):
            # installing the same half again in the middle of a run changes nothing (in particular not the other half)
            if self.ukind:
                yield ("rebound", "upper")
            if self.lkind:
                yield ("rebound", "lower")
        yield ("del", "p")

    # model helpers
    def reduce(self, parts):
        if not parts:
            return None
        r = REDUCTIONS[self.red][1]
        return [r([p[e] for p in parts]) for e in range(2)]

    def apply(self, st, name):
        pos, neg = self.reduce(st.pos[name]), self.reduce(st.neg[name])
        if pos is None and neg is None:
            return
        uk = self.ukind if name == "p" and self.form else None
        lk = self.lkind if name == "p" and self.form else None
        if name == "p" and self.form == "full":
            lk = self.ukind
        kw = {"power": 2.0}
        kwl = {"power": 3.0} if (name == "p" and self.form == "full") else kw
        new = []
        for e in range(2):
            P = st.val[name][e]
            d = 0.0
            if pos is not None:
                d += ref_upper(uk, P, pos[e], kw)
            if neg is not None:
                d -= ref_lower(lk, P, neg[e], kwl)
            new.append(P + d)
        st.val[name] = new

    def step(self, st, op, check=True):
        bad = []
        name = op[0]
        upd = st.host.updater
        try:
            if name == "contrib":
                _, t, kind, prm = op
                pos, neg = PARTS[t]
                scale = 1.0 if prm == "p" else 0.5
                pos = [v * scale for v in pos]
                neg = [v * scale for v in neg]
                if getattr(self, "f64", False):
                    pos = [v + 2.0 ** -30 for v in pos]
                    neg = [v + 2.0 ** -30 for v in neg]
                    tp, tn = torch.tensor(pos, dtype=torch.float64), torch.tensor(neg, dtype=torch.float64)
                else:
                    tp, tn = torch.tensor(pos), torch.tensor(neg)
                if kind == "pos":
                    setattr(upd, prm, (tp, None))
                    st.pos[prm].append(pos)
                elif kind == "neg":
                    setattr(upd, prm, (None, tn))
                    st.neg[prm].append(neg)
                elif kind == "both":
                    setattr(upd, prm, (tp, tn))
                    st.pos[prm].append(pos)
                    st.neg[prm].append(neg)
                elif kind == "direct":
                    getattr(upd, prm).pos = tp
                    getattr(upd, prm).neg = tn
                    st.pos[prm].append(pos)
                    st.neg[prm].append(neg)
                elif kind == "tensor":  # a bare tensor is a potentiating part
                    setattr(upd, prm, tp)
                    st.pos[prm].append(pos)
                else:
                    setattr(upd, prm, (None, None))
            elif name == "update":
                st.host.update(clear=op[1])
                for prm in ("p", "q"):
                    self.apply(st, prm)
                    if op[1]:
                        st.pos[prm], st.neg[prm] = [], []
            elif name == "clear":
                st.host.clear()
                for prm in ("p", "q"):
                    st.pos[prm], st.neg[prm] = [], []
            elif name == "updatesome":
                _, prm, clr = op
                st.host.updatesome(prm, clear=clr)
                self.apply(st, prm)
                if clr:
                    st.pos[prm], st.neg[prm] = [], []
            elif name == "updatesome0":
                st.host.updatesome()
            elif name == "updatesome2":
                _, prms, clr = op
                st.host.updatesome(*prms, clear=clr)
                for prm in prms:
                    self.apply(st, prm)
                    if clr:
                        st.pos[prm], st.neg[prm] = [], []
            elif name == "rebound":
                if op[1] == "upper":
                    f, kw = HALF_UP[self.ukind]
                    upd.p.upperbound(f, MAX, **kw)
                else:
                    f, kw = HALF_LO[self.lkind]
                    upd.p.lowerbound(f, MIN, **kw)
            elif name == "del":
                delattr(upd, op[1])
                st.pos[op[1]], st.neg[op[1]] = [], []
        except Exception as ex:
            if not check:
                raise
            return [(f"exception:{name}:{type(ex).__name__}:{self.form}:{self.ukind}", f"{op} raised {type(ex).__name__}: {ex}", None, repr(ex))]
        if not check:
            return bad
        exact = self.ukind not in ("power", "spower") and self.lkind not in ("power", "spower") and self.red != "mean"
        for prm in ("p", "q"):
            got = getattr(st.host, prm).detach().to(torch.float64).tolist()
            exp = st.val[prm]
            ok = got == exp if exact else all(abs(g - x) <= 1e-5 * max(1, abs(x)) for g, x in zip(got, exp))
            if not ok:
                bad.append((f"param:{name}:{prm}:{self.red}:{self.form}:{self.ukind}:{self.lkind}",
                            f"after {op}: {prm}={got}, reference {exp} (pending pos {st.pos[prm]} neg {st.neg[prm]})", exp, got))
            acc = getattr(upd, prm)
            for side, parts in (("pos", st.pos[prm]), ("neg", st.neg[prm])):
                g = getattr(acc, side)
                e = self.reduce(parts)
                g2 = None if g is None else g.detach().to(torch.float64).tolist()
                ok = (g2 == e) if (exact or g2 is None or e is None) else all(abs(a - b) <= 1e-6 for a, b in zip(g2, e))
                if not ok:
                    bad.append((f"accumulator:{name}:{side}:{self.red}", f"after {op}: updater.{prm}.{side}={g2}, reference "
                                f"reduce({parts})={e}", e, g2))
        return bad

    def canon(self, st):
        def ms(parts):
            return tuple(sorted(tuple(p) for p in parts))

        return (tuple(st.val["p"]), tuple(st.val["q"]), ms(st.pos["p"]), ms(st.neg["p"]), ms(st.pos["q"]), ms(st.neg["q"]))


def algebra_shard(red, red_how, form, ukind, lkind, depth, max_states, f64=False):
    """f64: the host is converted with .to(float64) and every contributed part carries a 2**-30 term that float32 cannot hold:
    parts, reductions and the applied update stay in float64 (compared exactly)"""
    tally = Tally()
    sysm = UpdaterSystem(red, red_how, form, ukind, lkind)
    sysm.f64 = f64
    sysm.config["float64"] = f64
    try:
        sysm.fresh()
    except Exception as ex:
        tally.violation(f"exception:construct:{red_how}:{form}:{type(ex).__name__}", {"config": sysm.config, "history": []},
                        f"constructing the updater/bounds raised {type(ex).__name__}: {ex}", None, repr(ex))
        return tally

    def nontrivial(st, op):
        if op[0] in ("update", "updatesome", "updatesome2"):
            return (red, red_how, form, ukind, lkind, op, len(st.pos["p"]), len(st.neg["p"]), len(st.pos["q"]), len(st.neg["q"]))
        return None

    explore(sysm, tally, max_depth=depth, max_states=max_states, nontrivial=nontrivial)
    return tally


# ---------------------------------------------------------------------------------------
# Part B: stay-in-range, inductive step on a grid


def acc_for(form, kind, order):
    acc = Accumulator()
    rng = MAX - MIN
    if form == "half":
        up = {"mult": (fn.bound_upper_multiplicative, {}), "smult": (fn.bound_upper_scaled_multiplicative, {"range": rng}),
              "spower": (fn.bound_upper_scaled_power, {"power": order, "range": rng}), "sharp": (fn.bound_upper_sharp, {})}[kind]
        lo = {"mult": (fn.bound_lower_multiplicative, {}), "smult": (fn.bound_lower_scaled_multiplicative, {"range": rng}),
              "spower": (fn.bound_lower_scaled_power, {"power": order, "range": rng}), "sharp": (fn.bound_lower_sharp, {})}[kind]
        acc.upperbound(up[0], MAX, **up[1])
        acc.lowerbound(lo[0], MIN, **lo[1])
    else:
        f = {"mult": fn.bound_multiplicative, "smult": fn.bound_scaled_multiplicative, "spower": fn.bound_scaled_power,
             "sharp": fn.bound_sharp}[kind]
        kw = {"upper_power": order, "lower_power": order} if kind == "spower" else {}
        acc.fullbound(f, MAX, MIN, **kw)
    return acc


def range_shard(form, kind, order, tier, limits=None):
    """limits: (min, max) other than the module default, e.g. a range with a limit exactly 0 (inhibitory [-1, 0], [0, 1])"""
    global MIN, MAX
    if limits is None:
        return _range_shard(form, kind, order, tier)
    keep = (MIN, MAX)
    MIN, MAX = limits
    try:
        return _range_shard(form, kind, order, tier)
    finally:
        MIN, MAX = keep


def _range_shard(form, kind, order, tier):
    tally = Tally()
    G = 64
    Pgrid = [MIN + (MAX - MIN) * i / G for i in range(G + 1)]
    if kind == "sharp":
        Pgrid += [MAX + 0.25, MAX + 1.0, MIN - 0.25, MIN - 1.0]
    umax = 1.0 if kind in ("mult", "sharp") else (MAX - MIN)
    lim = "" if (MIN, MAX) == (-1.0, 1.0) else f":limits={MIN:g},{MAX:g}"
    ugrid = [umax * i / 8 for i in range(9)]
    try:
        acc = acc_for(form, kind, order)
        P = torch.tensor(Pgrid)
        steps = 1 if tier == "quick" else 3
        for up, un in itertools.product(ugrid, ugrid):
            for which in ("both", "pos", "neg"):
                if (which == "pos" and un != ugrid[0]) or (which == "neg" and up != ugrid[0]):
                    continue
                cur = P.clone()
                for s in range(steps):
                    acc.clear()
                    if which in ("both", "pos"):
                        acc.pos = torch.full_like(cur, up)
                    if which in ("both", "neg"):
                        acc.neg = torch.full_like(cur, un)
                    new = acc(cur)
                    tally.add("evaluations", len(Pgrid))
                    eps = 1e-6 * (MAX - MIN)
                    for i, (a, b) in enumerate(zip(cur.tolist(), new.tolist())):
                        case = {"form": form, "kind": kind, "order": order, "limits": [MIN, MAX], "P": a, "u_pos": up if which != "neg" else None,
                                "u_neg": un if which != "pos" else None, "step": s}
                        if kind == "sharp":
                            if a >= MAX and b > a + eps:
                                tally.violation(f"sharp:moved-beyond-max:{form}", case, f"P={a} >= max moved up to {b}", a, b)
                            if a <= MIN and b < a - eps:
                                tally.violation(f"sharp:moved-beyond-min:{form}", case, f"P={a} <= min moved down to {b}", a, b)
                            if MIN < a < MAX:
                                exp = a + (up if which != "neg" else 0) - (un if which != "pos" else 0)
                                if abs(b - exp) > 1e-6:
                                    tally.violation(f"sharp:inside-not-additive:{form}", case, f"P={a} -> {b}, expected {exp}", exp, b)
                        else:
                            if MIN <= a <= MAX and not (MIN - eps <= b <= MAX + eps):
                                tally.violation(f"range:left-range:{kind}:{form}{lim}", case, f"P={a} in range moved to {b} outside [{MIN},{MAX}]", [MIN, MAX], b)
                            # formula (catches a dependence that is in range but wrong)
                            uk = {"mult": "mult", "smult": "smult", "spower": "spower"}[kind]
                            exp = a + (ref_upper(uk, a, up, {"power": order}) if which != "neg" else 0) - \
                                (ref_lower(uk, a, un, {"power": order}) if which != "pos" else 0)
                            if abs(b - exp) > 1e-5 * max(1.0, abs(exp)):
                                tally.violation(f"range:formula:{kind}:{form}{lim}", case, f"P={a} -> {b}, documented dependence gives {exp}", exp, b)
                        if a != b:
                            tally.mark("nontrivial", (form, kind, order, MIN, MAX, a, up, un, which))
                    if kind == "sharp":
                        break
                    cur = new.clamp(MIN, MAX) if False else new
    except Exception as ex:
        tally.violation(f"exception:bound:{form}:{kind}:{type(ex).__name__}", {"form": form, "kind": kind, "order": order},
                        f"applying {form} {kind} bound raised {type(ex).__name__}: {ex}", None, repr(ex))
    tally.sample({"form": form, "kind": kind, "order": order, "P_grid_points": len(Pgrid), "u_grid": ugrid})
    return tally


def layer_update_shard(depth, bounded):
    """Layer.update / Layer.clear over a Biclique in which ONE connection feeds two neuron groups (two cells, one updater) next to
    a connection with a single cell: every sequence of {contribute through a cell's updater, layer.update(clear), layer.clear} up
    to the depth; after each step every connection's weight equals old + bound(sum pos) - bound(sum neg) applied once per update."""
    from inferno.neural import Biclique, LinearDense, DeltaCurrent
    from inferno.extra import ExactNeuron
    tally = Tally()
    ops = [("contrib", "c/x"), ("contrib", "c/y"), ("contrib", "d/x"), ("update", True), ("update", False), ("clear",)]
    PP, NN = 0.25, 0.125

    def build():
        def conn():
            c = LinearDense((1,), (1,), 1.0, synapse=DeltaCurrent.partialconstructor(spike_charge=1.0), batch_size=1, weight_init=lambda w: torch.full_like(w, 0.5))
            c.updater = c.defaultupdater()
            if bounded:
                c.updater.weight.fullbound(fn.bound_multiplicative, 1.0, 0.0)
            return c
        neur = lambda: ExactNeuron((1,), 1.0, rest_v=-60.0, thresh_v=-45.0, batch_size=1)
        return Biclique([("c", conn()), ("d", conn())], [("x", neur()), ("y", neur())])

    for d in range(1, depth + 1):
        for seq in itertools.product(ops, repeat=d):
            if seq[-1][0] == "contrib":
                continue  # (checked as a prefix of the longer sequences)
            tally.add("evaluations")
            case = {"part": "layer update with a connection shared by two cells", "bounded": bounded, "sequence": [list(o) for o in seq]}
            try:
                layer = build()
                w = {"c": 0.5, "d": 0.5}
                pend = {"c": [0, 0], "d": [0, 0]}
                for op in seq:
                    if op[0] == "contrib":
                        cn, nn_ = op[1].split("/")
                        layer.get_cell(cn, nn_).updater.weight = (torch.full((1, 1), PP), torch.full((1, 1), NN))
                        pend[cn][0] += 1
                        pend[cn][1] += 1
                    elif op[0] == "update":
                        layer.update(clear=op[1])
                        for cn in w:
                            if pend[cn][0]:
                                pos, neg = PP * pend[cn][0], NN * pend[cn][1]
                                w[cn] = w[cn] + ((1.0 - w[cn]) * pos - w[cn] * neg if bounded else pos - neg)
                            if op[1]:
                                pend[cn] = [0, 0]
                    else:
                        layer.clear()
                        pend = {"c": [0, 0], "d": [0, 0]}
                    tally.add("transitions")
                for cn in w:
                    got = float(layer.get_connection(cn).weight.reshape(-1)[0])
                    if abs(got - w[cn]) > 1e-6:
                        tally.violation(f"layer-update:shared-connection:{'bounded' if bounded else 'plain'}:{cn}", case,
                                        f"connection '{cn}': weight {got}, one application per update gives {w[cn]}", w[cn], got)
                tally.mark("nontrivial", ("layer-update", bounded, seq))
            except Exception as ex:
                tally.violation(f"exception:layer-update:{type(ex).__name__}", case, repr(ex))
    tally.add("states", 1)
    tally.sample({"part": "layer update, shared connection", "depth": depth, "bounded": bounded})
    return tally


def run(rep):
    quick = rep.tier == "quick"
    depth = 4 if quick else 5
    cap = 4000 if quick else 30000
    jobs = []
    cfgs = [("default", "none", None, None, None), ("mean", "ctor", None, None, None), ("mean", "method", None, None, None),
            ("amax", "ctor", None, None, None), ("amax", "method", None, None, None),
            ("halfsum", "ctor", None, None, None), ("halfsum", "method", "half", "mult", "mult")]
    for kind in ("mult", "smult", "power", "spower", "sharp"):
        cfgs.append(("default", "none", "half", kind, kind))
        cfgs.append(("default", "none", "full", kind, kind))
    cfgs += [("default", "none", "half", "mult", None), ("default", "none", "half", None, "sharp"), ("mean", "ctor", "half", "smult", "mult")]
    cfgs += [("default", "none", "half-rev", "mult", "mult"), ("default", "none", "half-rev", "sharp", "smult"), ("mean", "ctor", "half-rev", "spower", "mult")]
    for c in cfgs:
        jobs.append((algebra_shard, (*c, depth, cap)))
    for c in (("default", "none", None, None, None), ("amax", "ctor", None, None, None), ("default", "none", "half", "mult", "mult"), ("default", "none", "full", "sharp", "sharp")):
        jobs.append((algebra_shard, (*c, depth - 1, cap, True)))  # float64 host and parts
    for form in ("half", "full"):
        for kind, orders in (("mult", (1.0,)), ("smult", (1.0,)), ("spower", (1.0, 1.5, 2.0, 3.0)), ("sharp", (1.0,))):
            for order in orders:
                jobs.append((range_shard, (form, kind, order, rep.tier)))
                if order in (1.0, 2.0):  # ranges with a limit exactly 0
                    jobs.append((range_shard, (form, kind, order, rep.tier, (-1.0, 0.0))))
                    jobs.append((range_shard, (form, kind, order, rep.tier, (0.0, 1.0))))
    for bounded in (False, True):
        jobs.append((layer_update_shard, (depth, bounded)))
    tally = run_shards(jobs, seed=rep.seed)
    rep.tally.merge(tally)
    c = tally.counts
    rep.assumptions += [
        "contributions are dyadic so that reduction and unbounded application are exact in float32; power dependences use "
        "relative tolerance 1e-5",
        "stay-in-range is an inductive step checked on a 65-point grid of [min,max] x 9x9 magnitudes (tolerance 1e-6*range); values "
        "between grid points are not covered",
        "unscaled power dependence is not covered by the stay-in-range clause (property text) - only its formula is checked",
    ]
    cov = {
        "states": c.get("states", 0),
        "transitions": c.get("transitions", 0),
        "traces_validated_against_impl": c.get("transitions", 0),
        "max_depth": c.get("max_depth", 0),
        "depth_bound": depth,
        "capped_configurations": c.get("capped_configs", 0),
        "state_capped_configurations": c.get("state_capped_configs", 0),
        "exhaustive": c.get("state_capped_configs", 0) == 0,
        "exhaustive_note": "all event sequences up to depth_bound per configuration (state dedup on parameter values and pending multisets)",
        "grid_evaluations": c.get("evaluations", 0),
        "evaluations": c.get("transitions", 0) + c.get("evaluations", 0),
        "distinct_nontrivial": len(tally.sets.get("nontrivial", ())),
        "rule": "BFS over contribute/update/clear/updatesome/del sequences per (reduction, bounding) configuration; non-trivial = "
                "distinct (configuration, update op, pending-queue sizes) applications; grid part: distinct (bound, P, u+, u-) "
                "that changed the parameter",
    }
    return rep.finish(cov, floors={"states": 1000, "transitions": 10000, "grid_evaluations": 10000})


def replay(case):
    if "history" in case:
        cfg = case["config"]
        sysm = UpdaterSystem(cfg["reduction"], cfg["reduction_set_by"], cfg["bound_form"], cfg["upper"], cfg["lower"])
        try:
            st = sysm.fresh()
        except Exception as ex:
            return {"violations": [["exception:construct", repr(ex)]]}
        for op in case["history"]:
            bad = sysm.step(st, tuple(op), check=True)
            if bad:
                return {"violations": [b[:2] for b in bad], "at": list(op)}
        return {"violations": []}
    acc = acc_for(case["form"], case["kind"], case["order"])
    P = torch.tensor([case["P"]]) if "P" in case else torch.tensor([0.0])
    if case.get("u_pos") is not None:
        acc.pos = torch.tensor([case["u_pos"]])
    if case.get("u_neg") is not None:
        acc.neg = torch.tensor([case["u_neg"]])
    return {"violations": [], "after": acc(P).tolist()}
