"""C13 - resizing a record keeps the newest observations and the size formula (E1).

Part A (temporal setters): BFS over sequences of {dt=, duration=, inclusive=, push} from every
(pointer, fill level) start state and from every uninitialised storage kind. Model: the logical
history newest-first plus (dt, duration, inclusive); a resize keeps the newest min(N,N') entries and
zero-fills older new slots; recordsz follows the documented float formula.

Part B (constraint bookkeeping): BFS over reconstrain add/edit/remove sequences on strict and
non-strict ShapedTensor / RecordTensor; validity is recomputed independently.
"""

from __future__ import annotations

import math

import itertools

import torch
import torch.nn as nn

import inferno
from inferno.core.infrastructure import RecordTensor, ShapedTensor

from mc.common import Tally
from mc.explore import explore
from mc.pool import run_shards

ID = "C13"
LEVEL = "model_checking"


def size_formula(dt, duration, inclusive):
    return max(math.ceil(duration / dt) + bool(inclusive), 1)


class St:
    pass


class TemporalSystem:
    def __init__(self, storage, shape, dt0, dur0, inc0, dts, durs):
        self.storage, self.shape = storage, tuple(shape)
        self.dt0, self.dur0, self.inc0 = dt0, dur0, inc0
        self.dts, self.durs = dts, durs
        self.E = 1
        for s in self.shape:
            self.E *= s
        self.config = {"part": "temporal", "storage": storage, "shape": list(shape), "dt0": dt0, "dur0": dur0,
                       "inc0": inc0}

    def fresh(self):
        st = St()
        st.mod = inferno.Module()
        if self.storage == "zeros":
            val = torch.zeros(self.shape)
        elif self.storage.startswith("zeros:"):  # initialised storage of another dtype: resizing keeps the dtype
            val = torch.zeros(self.shape, dtype={"int64": torch.int64, "bool": torch.bool, "float64": torch.float64, "float16": torch.float16}[self.storage.split(":")[1]])
        elif self.storage == "param":
            val = nn.Parameter(torch.zeros(self.shape), requires_grad=False)
        elif self.storage == "none":
            val = None
        elif self.storage == "empty0":
            val = torch.empty(0)
        elif self.storage == "uninitbuf":
            val = nn.UninitializedBuffer()
        elif self.storage == "uninitparam":
            val = nn.UninitializedParameter(requires_grad=False)
        RecordTensor.create(st.mod, "rec", self.dt0, self.dur0, val, inclusive=self.inc0)
        st.rt = st.mod.rec
        st.dt, st.dur, st.inc = self.dt0, self.dur0, self.inc0
        st.init = self.storage in ("zeros", "param") or self.storage.startswith("zeros:")
        st.dtype = None if not st.init else st.rt.value.dtype
        N = size_formula(st.dt, st.dur, st.inc)
        st.hist = [[0.0] * self.E for _ in range(N)] if st.init else None
        st.step = 0
        return st

    def build(self, history):
        st = self.fresh()
        for op in history:
            self.step(st, op, check=False)
        return st

    def mutations(self, st):
        yield ("push",)
        for v in self.dts:
            yield ("dt", v)
        for v in self.durs:
            yield ("duration", v)
        for b in (False, True):
            yield ("inclusive", b)
        if st.init:
            # re-alignment leaves the logical history alone; a negative index is legal and is stored as given
            yield ("align", -1)
            if size_formula(st.dt, st.dur, st.inc) >= 2:  # the documented index range is [-N, N)
                yield ("align", 1)

    def queries(self, st):
        return ()

    def step(self, st, op, check=True):
        bad = []
        rt = st.rt
        name = op[0]
        if name == "align":
            try:
                rt.align(op[1])
            except Exception as ex:
                if not check:
                    raise
                return [(f"exception:align:{type(ex).__name__}", f"align({op[1]}) raised {ex!r}", None, repr(ex))]
            if check:
                N = size_formula(st.dt, st.dur, st.inc)
                got = [rt.read(k).reshape(-1).tolist() for k in range(1, N + 1)]
                if got != st.hist:
                    bad.append(("history:align", f"after {op} reads newest-first {got}, model {st.hist}", st.hist, got))
            return bad
        Nold = size_formula(st.dt, st.dur, st.inc)
        raised = None
        if name == "push":
            st.step += 1
            vals = [float(100 * st.step + e) for e in range(self.E)]
            if self.storage == "zeros:bool":
                vals = [float((st.step + e) % 2 == 1 or st.step % 3 == 0) for e in range(self.E)]
            try:
                rt.push(torch.tensor(vals).reshape(self.shape).to(st.dtype if getattr(st, "dtype", None) is not None else torch.float32))
            except Exception as ex:
                if not check:
                    raise
                return [(f"exception:push:{type(ex).__name__}", f"push raised {ex!r}", None, repr(ex))]
            if not st.init:
                st.init = True
                st.hist = [[0.0] * self.E for _ in range(Nold)]
            st.hist = [vals] + st.hist[:-1]
        else:
            if name == "dt":
                st.dt = op[1]
            elif name == "duration":
                st.dur = op[1]
            else:
                st.inc = op[1]
            try:
                setattr(rt, name, op[1])
            except Exception as ex:
                raised = ex
            Nnew = size_formula(st.dt, st.dur, st.inc)
            if st.init:
                st.hist = st.hist[:Nnew] + [[0.0] * self.E for _ in range(max(0, Nnew - Nold))]
        if not check:
            if raised is not None:
                raise raised
            return bad
        Nnow = size_formula(st.dt, st.dur, st.inc)
        kind = "init" if st.init else "uninit"
        if raised is not None:
            bad.append((f"exception:set-{name}:{kind}:{type(raised).__name__}",
                        f"{name}={op[1]!r} raised {type(raised).__name__}: {raised}", "no exception", repr(raised)))
        if (rt.dt, rt.duration, bool(rt.inclusive)) != (st.dt, st.dur, bool(st.inc)):
            bad.append((f"getter:{name}:{kind}", f"after {op} getters report dt={rt.dt} duration={rt.duration} "
                        f"inclusive={rt.inclusive}", [st.dt, st.dur, st.inc], [rt.dt, rt.duration, rt.inclusive]))
        if rt.recordsz != Nnow:
            bad.append((f"recordsz:{name}:{kind}" + (":after-raise" if raised is not None else ""),
                        f"after {op} recordsz={rt.recordsz}, formula gives {Nnow} "
                        f"(dt={st.dt}, duration={st.dur}, inclusive={st.inc})", Nnow, rt.recordsz))
        if st.init and raised is None:
            val = rt.value
            if rt.ignored:
                bad.append((f"state:{name}:deinitialised", f"after {op} storage is ignored", None, None))
            elif st.dtype is not None and val.dtype != st.dtype:
                bad.append((f"storage-dtype:{name}", f"after {op} the storage dtype is {val.dtype}, it was {st.dtype}", str(st.dtype), str(val.dtype)))
            elif val.shape[0] != Nnow or tuple(val.shape[1:]) != self.shape:
                bad.append((f"storage-shape:{name}", f"after {op} storage shape {tuple(val.shape)}", [Nnow, *self.shape], list(val.shape)))
            else:
                got = [[float(v) for v in rt.read(k).reshape(-1).tolist()] for k in range(1, Nnow + 1)]
                if got != st.hist:
                    keep = min(Nold, Nnow)
                    where = "kept" if got[:keep] != st.hist[:keep] else "fill"
                    grow = "grow" if Nnow > Nold else ("shrink" if Nnow < Nold else "same")
                    bad.append((f"history:{name}:{grow}:{where}", f"after {op} (N {Nold}->{Nnow}) reads newest-first {got}, "
                                f"model {st.hist}", st.hist, got))
        elif not st.init and raised is None:
            if not rt.ignored:
                bad.append((f"state:{name}:initialised-by-setter", f"after {op} storage became initialised", None, None))
        return bad

    def canon(self, st):
        if not st.init:
            return (st.dt, st.dur, st.inc, "uninit")
        flat = [tuple(r) for r in st.hist]
        ranks = {v: i for i, v in enumerate(sorted(set(flat)))}
        return (st.dt, st.dur, st.inc, st.rt.pointer % st.rt.recordsz, st.rt.pointer < 0, tuple(ranks[v] for v in flat))


def temporal_shard(storage, shape, dt0, dur0, inc0, dts, durs, depth):
    tally = Tally()
    sysm = TemporalSystem(storage, shape, dt0, dur0, inc0, dts, durs)
    N0 = size_formula(dt0, dur0, inc0)
    initial = [()]
    if storage in ("zeros", "param") or storage.startswith("zeros:"):
        # every pointer position x fill level: k pushes (pointer k mod N, fill min(k,N))
        initial = [tuple([("push",)] * k) for k in range(0, 2 * N0 + 1)]

    def nontrivial(st, op):
        if op[0] != "push":
            return (storage, st.init, op, size_formula(st.dt, st.dur, st.inc), st.rt.pointer)
        return None

    explore(sysm, tally, max_depth=depth + 2 * N0 if (storage in ("zeros", "param") or storage.startswith("zeros:")) else depth, initial=initial,
            nontrivial=nontrivial)
    return tally


# ---------------------------------------------------------------------------------------
# Part B: reconstrain bookkeeping


def holds(shape, constraints, strict):
    """independent recomputation: every constraint refers to an existing dim of the right size, and
    (strict) no two constraints refer to the same dim"""
    nd = len(shape)
    seen = set()
    for d, s in constraints.items():
        if not (-nd <= d < nd):
            return False
        if shape[d] != s:
            return False
        dn = d % nd
        if strict and dn in seen:
            return False
        seen.add(dn)
    return True


def ref_resize(t, dim, size):
    n = t.shape[dim]
    if n > size:
        idx = [slice(None)] * t.ndim
        idx[dim] = slice(n - size, None)
        return t[tuple(idx)].clone()
    if n < size:
        shp = list(t.shape)
        shp[dim] = size - n
        return torch.cat((torch.zeros(shp, dtype=t.dtype), t), dim)
    return t.clone()


class ConstraintSystem:
    def __init__(self, kind, strict, shape, dims, sizes):
        self.kind, self.strict, self.shape, self.dims, self.sizes = kind, strict, tuple(shape), dims, sizes
        self.config = {"part": "reconstrain", "kind": kind, "strict": strict, "shape": list(shape)}

    def fresh(self):
        st = St()
        st.mod = inferno.Module()
        n = 1
        for s in self.shape:
            n *= s
        base = (torch.arange(n, dtype=torch.float32) + 1).reshape(self.shape)
        if self.kind == "shaped":
            ShapedTensor.create(st.mod, "x", base.clone(), strict=self.strict)
            st.t = st.mod.x
            st.ref = base.clone()
        elif self.kind == "shaped-none":
            ShapedTensor.create(st.mod, "x", None, strict=self.strict)
            st.t = st.mod.x
            st.ref = None
        elif self.kind in ("record-uninitbuf", "record-uninitparam", "record-empty0"):
            # a record whose storage is not initialised yet (lazy kinds): bookkeeping only, nothing may raise for that reason
            val = {"record-uninitbuf": nn.UninitializedBuffer(), "record-uninitparam": nn.UninitializedParameter(requires_grad=False),
                   "record-empty0": torch.empty(0)}[self.kind]
            RecordTensor.create(st.mod, "x", 1.0, 2.0, val, strict=self.strict)
            st.t = st.mod.x
            st.ref = None
            # twin with plain ``None`` storage: every lazy kind must accept / refuse exactly what it does
            RecordTensor.create(st.mod, "twin", 1.0, 2.0, None, strict=self.strict)
            st.twin = st.mod.twin
        else:  # record: 2 slots, observation = base; fill both slots with distinct data
            RecordTensor.create(st.mod, "x", 1.0, 2.0, base.clone(), strict=self.strict)
            st.t = st.mod.x
            st.t.push(base.clone())
            st.t.push(base.clone() + 100)
            st.ref = torch.stack((base, base + 100), 0)
        st.cons = {}
        st.ok = True
        return st

    def build(self, history):
        st = self.fresh()
        for op in history:
            self.step(st, op, check=False)
        return st

    def mutations(self, st):
        for d in self.dims:
            for s in self.sizes:
                yield ("reconstrain", d, s)

    def queries(self, st):
        return ()

    def obs_data(self, st):
        v = st.t.value
        return None if (v is None or st.t.ignored) else v.detach().clone()

    def user_constraints(self, st):
        return dict(st.t.constraints)

    def step(self, st, op, check=True):
        _, dim, size = op
        t = st.t
        rec = self.kind.startswith("record")
        before_c = self.user_constraints(st)
        before_d = self.obs_data(st)
        raised = None
        try:
            t.reconstrain(dim, size)
        except Exception as ex:
            raised = ex
        twin = getattr(st, "twin", None)
        twin_bad = None
        if twin is not None:
            traised = None
            try:
                twin.reconstrain(dim, size)
            except Exception as ex:
                traised = ex
            if (raised is None) != (traised is None):
                twin_bad = (f"uninitialised-storage-kind-differs:{self.kind}", f"{op}: with {self.kind.split('-')[1]} storage reconstrain "
                            f"{'raised ' + repr(raised) if raised is not None else 'was accepted'}, with None storage it "
                            f"{'raised ' + repr(traised) if traised is not None else 'was accepted'}", None, repr(raised))
            elif dict(twin.constraints) != dict(t.constraints):
                twin_bad = (f"uninitialised-storage-kind-differs:{self.kind}:constraints", f"{op}: constraints {dict(t.constraints)} vs {dict(twin.constraints)} "
                            "with None storage", dict(twin.constraints), dict(t.constraints))
        after_c = self.user_constraints(st)
        after_d = self.obs_data(st)
        bad = []
        if check and twin_bad is not None:
            bad.append(twin_bad)
        tag = f"{self.kind}:{'strict' if self.strict else 'loose'}"

        def same(a, b):
            if a is None or b is None:
                return a is None and b is None
            return a.shape == b.shape and bool(torch.equal(a, b))

        # model view of data in *logical* terms: for a record, oldest->newest after align
        def logical(d):
            if d is None or not rec:
                return d
            return d  # compared only through same()/resize on the observation dims; see below

        is_add = dim not in before_c and size is not None
        is_remove = size is None
        is_edit = dim in before_c and size is not None
        # observation shape seen by the user (records hide the time dim)
        oshape = None if before_d is None else tuple(before_d.shape[1:] if rec else before_d.shape)

        if check:
            # (i) reported valid => constraints hold (independently recomputed)
            if t.valid and after_d is not None:
                shp = tuple(after_d.shape[1:] if rec else after_d.shape)
                if not holds(shp, after_c, self.strict):
                    bad.append((f"valid-but-violated:{tag}", f"after {op}: valid=True but shape {shp} violates {after_c}", None, None))
            # (iii) remove never alters data
            if is_remove and not self._same_logical(st, before_d, after_d, rec):
                bad.append((f"remove-altered-data:{tag}", f"{op} changed the data", None, None))
            if is_remove and dim in before_c and raised is None and dim in after_c:
                bad.append((f"remove-kept-constraint:{tag}", f"{op} left the constraint in place", None, None))
            # (ii)/(iv) add
            if is_add and before_d is not None and st.ok:
                compatible = holds(oshape, {**before_c, dim: size}, self.strict)
                if raised is not None:
                    if after_c != before_c or not self._same_logical(st, before_d, after_d, rec):
                        bad.append((f"refused-add-side-effect:{tag}", f"{op} raised {type(raised).__name__} but changed "
                                    f"constraints {before_c}->{after_c} or data", None, None))
                    # a compatible add that is refused is only an error for non-strict constraints: the shipped
                    # strict rule (positive and negative dims may not overlap *ranges*) is stronger than
                    # "distinct dims" and the property only demands that incompatible adds are refused
                    if compatible and not self.strict:
                        bad.append((f"compatible-add-refused:{tag}", f"{op} on shape {oshape} with {before_c} raised {raised!r}", None, None))
                else:
                    if not compatible:
                        bad.append((f"incompatible-add-accepted:{tag}", f"{op} on shape {oshape} with {before_c} was accepted", None, None))
                    elif after_c != {**before_c, dim: size}:
                        bad.append((f"add-not-recorded:{tag}", f"{op}: constraints {after_c}", None, None))
                    if not self._same_logical(st, before_d, after_d, rec):
                        bad.append((f"add-altered-data:{tag}", f"{op} changed the data", None, None))
            if is_add and before_d is None and raised is None and after_c != {**before_c, dim: size}:
                bad.append((f"add-not-recorded:{tag}:ignored", f"{op}: constraints {after_c}", None, None))
            # (v) successful edit
            if is_edit and raised is None:
                if after_c.get(dim) != size:
                    bad.append((f"edit-not-recorded:{tag}", f"{op}: constraints {after_c}", None, None))
                if before_d is not None and st.ok:
                    d_eff = dim + 1 if (rec and dim >= 0) else dim
                    src = self._aligned(st, before_d) if rec else before_d
                    exp = ref_resize(src, d_eff, size)
                    got = self._aligned(st, after_d) if rec else after_d
                    if not same(exp, got):
                        bad.append((f"edit-data:{tag}", f"{op}: data after edit differs from tail-preserving resize", exp, got))
                    if not t.valid:
                        bad.append((f"edit-invalidated:{tag}", f"{op} succeeded but tensor is now invalid", None, None))
        st.cons = after_c
        st.ok = bool(t.valid)
        if not check and raised is not None:
            pass  # raising reconstrains are part of the alphabet
        return bad

    def _aligned(self, st, d):
        """logical oldest->newest view of a record's storage (independent of the physical pointer)"""
        p = st.t.pointer
        return torch.roll(d, -p, 0)

    def _same_logical(self, st, a, b, rec):
        if a is None or b is None:
            return a is None and b is None
        if a.shape != b.shape:
            return False
        if not rec:
            return bool(torch.equal(a, b))
        # reconstrain may align the record (pointer -> 0): compare logical order; pointer before is unknown
        # after the fact, so accept any rotation that is a pure re-alignment: multiset of slices in cyclic order
        n = a.shape[0]
        return any(bool(torch.equal(torch.roll(a, r, 0), b)) for r in range(n))

    def canon(self, st):
        d = self.obs_data(st)
        return (tuple(sorted(st.cons.items())), None if d is None else tuple(d.shape), st.ok)


def constraint_shard(kind, strict, shape, dims, sizes, depth):
    tally = Tally()
    sysm = ConstraintSystem(kind, strict, shape, dims, sizes)

    def nontrivial(st, op):
        return (kind, strict, tuple(shape), tuple(sorted(st.cons.items())), op)

    explore(sysm, tally, max_depth=depth, nontrivial=nontrivial)
    return tally


def caller_dict_shard(kind):
    """Constraint bookkeeping belongs to the tensor: two tensors built from one caller-owned constraints dict stay independent, the
    caller's dict is never rewritten by reconstrain, and editing it afterwards does not change a tensor. Every sequence of up to
    three reconstrain operations on the first tensor."""
    tally = Tally()
    ops = [(d, s) for d in (0, 1, -1) for s in (None, 2, 3, 4)]
    for strict in (True, False):
        for depth in (1, 2, 3):
            for seq in itertools.product(ops, repeat=depth):
                tally.add("evaluations")
                case = {"part": "caller-owned constraints dict", "kind": kind, "strict": strict, "reconstrain_sequence_on_first": [list(o) for o in seq]}
                d = {0: 2}
                mod = inferno.Module()
                base = torch.arange(6, dtype=torch.float32).reshape(2, 3)
                try:
                    if kind == "shaped":
                        ShapedTensor.create(mod, "a", base.clone(), constraints=d, strict=strict)
                        ShapedTensor.create(mod, "b", base.clone(), constraints=d, strict=strict)
                    else:
                        RecordTensor.create(mod, "a", 1.0, 1.0, base.clone(), constraints=d, strict=strict)
                        RecordTensor.create(mod, "b", 1.0, 1.0, base.clone(), constraints=d, strict=strict)
                except Exception as ex:
                    tally.violation(f"exception:create-with-constraints:{kind}:{type(ex).__name__}", case, repr(ex))
                    break
                a, b = mod.a, mod.b
                b_data = b.value.detach().clone()
                for (dim, size) in seq:
                    try:
                        a.reconstrain(dim, size)
                    except Exception:
                        pass  # refusals are legal; what matters is what happened to the others
                if d != {0: 2}:
                    tally.violation(f"caller-dict-rewritten:{kind}", case, f"reconstrain on the tensor rewrote the caller's dict to {d}", {0: 2}, dict(d))
                    continue
                if dict(b.constraints) != {0: 2} or not b.valid or not torch.equal(b.value.detach(), b_data):
                    tally.violation(f"sibling-tensor-changed:{kind}", case, f"a second tensor built from the same dict now reports constraints "
                                    f"{dict(b.constraints)}, valid={b.valid}", {0: 2}, dict(b.constraints))
                    continue
                before = dict(a.constraints)
                d[1] = 7
                if dict(a.constraints) != before:
                    tally.violation(f"caller-dict-aliased:{kind}", case, f"editing the caller's dict afterwards changed the tensor's constraints to {dict(a.constraints)}",
                                    before, dict(a.constraints))
                tally.mark("nontrivial", ("caller-dict", kind, strict, seq))
    tally.sample({"part": "caller-owned constraints dict", "kind": kind, "ops": len(ops)})
    return tally


def empty_dims_shard():
    """tensors with a zero-size dimension: only a tensor with no elements AND a single dimension is exempt from the constraints
    (documented); an empty tensor with two or more dimensions that is reported valid satisfies every constraint, and an
    incompatible one is refused by the constructor / reported invalid"""
    tally = Tally()
    for shape in ((0, 3), (2, 0), (0, 0), (1, 0, 2)):
        for strict in (True, False):
            for cons in [dict(c) for n in (1, 2) for c in itertools.combinations([(0, 0), (0, 2), (1, 0), (1, 3), (-1, 0), (-1, 2), (-1, 3)], n) if len({d for d, _ in c}) == n]:
                tally.add("transitions")
                case = {"config": {"part": "empty multi-dimensional tensor", "shape": list(shape), "strict": strict}, "constraints": {str(k): v for k, v in cons.items()}}
                mod = inferno.Module()
                ok_ref = holds(shape, cons, strict)
                try:
                    ShapedTensor.create(mod, "x", torch.zeros(shape), constraints=dict(cons), strict=strict)
                except Exception:
                    if ok_ref and not strict:
                        tally.violation("empty-dims:compatible-refused", case, f"a tensor of shape {shape} satisfying {cons} was refused by the constructor")
                    continue
                t = mod.x
                if t.ignored:
                    tally.violation("empty-dims:treated-as-uninitialised", case, f"a tensor of shape {shape} (more than one dimension) is treated as uninitialised storage")
                    continue
                if t.valid and not ok_ref:
                    tally.violation("empty-dims:valid-but-violated", case, f"shape {shape} violates {cons} but the tensor was accepted and reports valid=True", False, True)
                tally.mark("nontrivial", ("empty-dims", shape, strict, tuple(sorted(cons.items()))))
    tally.add("states", 1)
    tally.sample({"part": "empty multi-dimensional tensors"})
    return tally


def run(rep):
    quick = rep.tier == "quick"
    jobs = []
    dts = (1.0, 0.5, 0.3)
    durs = (0.0, 0.9, 1.0, 2.0, 3.0) if quick else (0.0, 0.9, 1.0, 2.0, 3.0, 4.0)
    depth = 3 if quick else 4
    starts = [(1.0, 0.0, False), (1.0, 1.0, True), (1.0, 3.0, False), (0.5, 2.0, False)]
    if not quick:
        starts += [(1.0, 4.0, True), (0.3, 0.9, False)]
    for (dt0, dur0, inc0) in starts:
        for storage, shape in (("zeros", (2,)), ("param", (2,)), ("none", (2,)), ("empty0", (2,)),
                               ("uninitbuf", (2,)), ("uninitparam", (2,)), ("zeros", ())):
            if storage in ("param", "uninitparam", "empty0", "uninitbuf") and (dt0, dur0, inc0) not in starts[:2] and quick:
                continue
            jobs.append((temporal_shard, (storage, shape, dt0, dur0, inc0, dts, durs, depth)))
    # initialised storage of other dtypes (spike records are boolean, counters integer): a resize keeps the dtype
    for storage in ("zeros:int64", "zeros:bool", "zeros:float64", "zeros:float16"):
        jobs.append((temporal_shard, (storage, (2,), 1.0, 1.0, True, dts, durs, depth - 1)))
    # step times and durations whose ratio is not representable (1.05/0.35 == 3.0000000000000004): the documented size is
    # ceil(duration/dt) + inclusive evaluated in that order, from the constructor and from every setter alike
    jobs.append((temporal_shard, ("zeros", (2,), 0.35, 1.05, True, (0.35, 0.7, 0.15), (1.05, 2.1), depth - 1)))
    jobs.append((temporal_shard, ("zeros", (2,), 0.7, 2.1, False, (0.35, 0.7, 0.95), (1.05, 2.1, 2.85), depth - 1)))
    cdepth = 4 if quick else 5
    for kind in ("shaped", "record", "shaped-none"):
        for strict in (True, False):
            for shape in ((2, 3), (3, 2, 2)) if kind != "shaped-none" else ((2, 3),):
                jobs.append((constraint_shard, (kind, strict, shape, (0, 1, -1, -2), (None, 1, 2, 3), cdepth)))
    for kind in ("record-uninitbuf", "record-uninitparam", "record-empty0"):
        for strict in (True, False):
            jobs.append((constraint_shard, (kind, strict, (2, 3), (0, 1, -1, -2), (None, 1, 2, 3), cdepth - 1)))
    for kind in ("shaped", "record"):
        jobs.append((caller_dict_shard, (kind,)))
    jobs.append((empty_dims_shard, ()))
    tally = run_shards(jobs, seed=rep.seed)
    rep.tally.merge(tally)
    c = tally.counts
    rep.assumptions += [
        "size formula evaluated with Python floats exactly as documented: max(ceil(duration/dt)+inclusive, 1)",
        "step times {1.0,0.5,0.3}, durations {0,0.9,1,2,3(,4)}: record sizes 1..11 incl. the non-representable ratio 0.9/0.3",
        "constraint dims {0,1,-1,-2}, sizes {None,1,2,3}, tensors (2,3) and (3,2,2)",
    ]
    cov = {
        "states": c.get("states", 0),
        "transitions": c.get("transitions", 0),
        "traces_validated_against_impl": c.get("transitions", 0),
        "max_depth": c.get("max_depth", 0),
        "shards": len(jobs),
        "exhaustive": True,
        "depth_bound": {"temporal_setter_sequences": depth, "reconstrain_sequences": cdepth},
        "distinct_nontrivial": len(tally.sets.get("nontrivial", ())),
        "evaluations": c.get("transitions", 0),
        "rule": "BFS over all setter/push sequences (resp. reconstrain sequences) up to the depth bound from every "
                "(pointer, fill) start state and every uninitialised storage kind; non-trivial = distinct (storage, "
                "initialised?, setter op, resulting size, pointer) resp. (constraints, op) transitions",
    }
    return rep.finish(cov, floors={"states": 100, "transitions": 2000})


def replay(case):
    cfg = case["config"]
    if cfg["part"] == "temporal":
        sysm = TemporalSystem(cfg["storage"], tuple(cfg["shape"]), cfg["dt0"], cfg["dur0"], cfg["inc0"], (), ())
    else:
        sysm = ConstraintSystem(cfg["kind"], cfg["strict"], tuple(cfg["shape"]), (), ())
    st = sysm.fresh()
    for op in case["history"]:
        bad = sysm.step(st, tuple(op), check=True)
        if bad:
            return {"violations": [b[:2] for b in bad], "at": list(op)}
    return {"violations": []}
