"""C03 - neuron step contract (E2: all input histories up to T, walked as a trie with snapshots).

Per step and neuron the oracle is (a) a history monitor that does not re-simulate anything:
silence and (with locking) frozen voltage for max(1, ceil(refrac_t/dt)) - 1 steps after a spike,
refrac >= 0, spike attribute == returned spikes; and (b) the documented one-step update equation
evaluated in float64 from the implementation's own previous state, with a dead band around the
threshold. The >= comparator is exercised separately on exactly representable states.
"""

from __future__ import annotations

import itertools
import math

import torch

import inferno
from inferno.neural import LIF, ALIF, GLIF1, GLIF2, QIF, Izhikevich, EIF, AdEx

from mc.common import Tally, Guard
from mc.pool import run_shards

ID = "C03"
LEVEL = "model_checking"

HP = {
    "LIF": [dict(rest_v=0.0, reset_v=-0.5, thresh_v=2.0, time_constant=2.0, resistance=1.0),
            dict(rest_v=-65.0, reset_v=-70.0, thresh_v=-50.0, time_constant=20.0, resistance=0.5)],
    "GLIF1": [dict(rest_v=0.0, reset_v=-0.5, thresh_v=2.0, time_constant=2.0, resistance=1.0),
              dict(rest_v=-65.0, reset_v=-70.0, thresh_v=-50.0, time_constant=20.0, resistance=0.5)],
    "ALIF": [dict(rest_v=0.0, reset_v=-0.5, thresh_eq_v=2.0, tc_membrane=2.0, tc_adaptation=4.0, spike_increment=0.5, resistance=1.0),
             dict(rest_v=-65.0, reset_v=-70.0, thresh_eq_v=-50.0, tc_membrane=20.0, tc_adaptation=(4.0, 8.0), spike_increment=(0.5, 0.25), resistance=0.5)],
    "GLIF2": [dict(rest_v=0.0, reset_v_add=0.5, reset_v_mul=0.25, thresh_eq_v=2.0, tc_membrane=2.0, rc_adaptation=0.25, spike_increment=0.5, resistance=1.0),
              dict(rest_v=-65.0, reset_v_add=2.0, reset_v_mul=0.5, thresh_eq_v=-50.0, tc_membrane=20.0, rc_adaptation=(0.25, 0.125), spike_increment=(0.5, 0.25), resistance=0.5)],
    "QIF": [dict(rest_v=0.0, crit_v=1.0, affinity=1.0, reset_v=-0.5, thresh_v=2.0, time_constant=2.0, resistance=1.0),
            dict(rest_v=-60.0, crit_v=-50.0, affinity=0.25, reset_v=-65.0, thresh_v=-30.0, time_constant=8.0, resistance=0.5),
            dict(rest_v=0.0, crit_v=1.0, affinity=2.0, reset_v=1.25, thresh_v=2.0, time_constant=2.0, resistance=1.0)],
    "Izhikevich": [dict(rest_v=0.0, crit_v=1.0, affinity=1.0, reset_v=-0.5, thresh_v=2.0, tc_membrane=2.0, tc_adaptation=4.0, voltage_coupling=0.5, spike_increment=0.25, resistance=1.0),
                   dict(rest_v=-60.0, crit_v=-50.0, affinity=0.25, reset_v=-65.0, thresh_v=-30.0, tc_membrane=8.0, tc_adaptation=(4.0, 16.0), voltage_coupling=(0.5, -0.25), spike_increment=(0.25, 1.0), resistance=0.5),
                   dict(rest_v=0.0, crit_v=1.0, affinity=2.0, reset_v=1.25, thresh_v=2.0, tc_membrane=2.0, tc_adaptation=4.0, voltage_coupling=0.0, spike_increment=0.0, resistance=1.0)],
    "EIF": [dict(rest_v=0.0, rheobase_v=1.0, sharpness=0.5, reset_v=-0.5, thresh_v=2.0, time_constant=2.0, resistance=1.0),
            dict(rest_v=-65.0, rheobase_v=-52.0, sharpness=2.0, reset_v=-70.0, thresh_v=-40.0, time_constant=16.0, resistance=0.5),
            dict(rest_v=0.0, rheobase_v=1.0, sharpness=0.5, reset_v=1.8, thresh_v=2.0, time_constant=2.0, resistance=1.0)],
    "AdEx": [dict(rest_v=0.0, rheobase_v=1.0, sharpness=0.5, reset_v=-0.5, thresh_v=2.0, tc_membrane=2.0, tc_adaptation=4.0, voltage_coupling=0.5, spike_increment=0.25, resistance=1.0),
             dict(rest_v=-65.0, rheobase_v=-52.0, sharpness=2.0, reset_v=-70.0, thresh_v=-40.0, tc_membrane=16.0, tc_adaptation=(4.0, 16.0), voltage_coupling=(0.5, -0.25), spike_increment=(0.25, 1.0), resistance=0.5),
             dict(rest_v=0.0, rheobase_v=1.0, sharpness=0.5, reset_v=1.8, thresh_v=2.0, tc_membrane=2.0, tc_adaptation=4.0, voltage_coupling=0.0, spike_increment=0.0, resistance=1.0)],
}
ABS_V = ("rest_v", "reset_v", "thresh_v", "thresh_eq_v", "crit_v", "rheobase_v")


def shifted_hp(cname, by=-60.0, idx=0):
    """the same dynamics translated along the voltage axis (every shipped model depends on voltage differences only):
    a non-zero resting potential, so that a zero-filled state is not accidentally the resting state"""
    return {k: (v + by if k in ABS_V else v) for k, v in HP[cname][idx].items()}


CLS = {"LIF": LIF, "ALIF": ALIF, "GLIF1": GLIF1, "GLIF2": GLIF2, "QIF": QIF, "Izhikevich": Izhikevich, "EIF": EIF, "AdEx": AdEx}
ADAPT_THRESH = ("ALIF", "GLIF2")
ADAPT_CURR = ("Izhikevich", "AdEx")


def sexp(x):
    try:
        return math.exp(x)
    except OverflowError:
        return math.inf


class Ref:
    """documented one-step equations, float64, for one neuron element"""

    def __init__(self, cname, hp, dt, refrac_t):
        self.c, self.hp, self.dt, self.rt = cname, hp, dt, refrac_t
        self.tau = hp.get("time_constant", hp.get("tc_membrane"))
        self.R = hp["resistance"]
        self.rest = hp["rest_v"]
        self.thresh = hp.get("thresh_v", hp.get("thresh_eq_v"))

    def integrate(self, v, I):
        return self.integrate_mag(v, I)[0]

    def integrate_mag(self, v, I):
        """(integrated voltage, largest magnitude among the summed terms) - the latter bounds float32 cancellation"""
        hp, dt = self.hp, self.dt
        if self.c in ("LIF", "GLIF1", "ALIF", "GLIF2"):
            d = math.exp(-dt / self.tau)
            ext = self.R * I
            return self.rest + (v - self.rest - ext) * d + ext, max(abs(v), abs(ext), abs(self.rest))
        if self.c in ("QIF", "Izhikevich"):
            q = hp["affinity"] * (v - self.rest) * (v - hp["crit_v"])
            return v + dt / self.tau * (q + self.R * I), max(abs(v), abs(q), abs(self.R * I), abs(hp["affinity"] * v * v))
        s = hp["sharpness"]
        e = s * sexp((v - hp["rheobase_v"]) / s)
        return v + dt / self.tau * (-(v - self.rest) + e + self.R * I), max(abs(v), abs(e), abs(self.R * I))

    def reset(self, v_int):
        if self.c == "GLIF2":
            return self.rest + self.hp["reset_v_mul"] * (v_int - self.rest) - self.hp["reset_v_add"]
        return self.hp["reset_v"]

    def window(self):
        """number of steps after a spike during which the neuron must stay silent"""
        from fractions import Fraction as F
        return max(1, math.ceil(F(self.rt) / F(self.dt))) - 1


def make(cname, hpi, dt, refrac_t):
    hp = HP[cname][hpi]
    n = CLS[cname]((2,), dt, refrac_t=refrac_t, batch_size=1, **hp)
    return n, hp


def get_adapt(n, cname):
    if cname in ADAPT_THRESH:
        return n.threshold_adaptation
    if cname in ADAPT_CURR:
        return n.current_adaptation
    return None


def set_adapt(n, cname, a):
    if cname in ADAPT_THRESH:
        n.threshold_adaptation = a
    elif cname in ADAPT_CURR:
        n.current_adaptation = a


def alphabet(ref, hp):
    """simplest first: zero, sub-threshold, critical (computed per state), huge, strongly negative"""
    span = abs(ref.thresh - ref.rest)
    return ["zero", "below", "above", "huge", "neg"], span


def letter_value(letter, ref, v, a_sum_cur, theta):
    """current for one neuron element given its present state (float64)"""
    span = abs(ref.thresh - ref.rest)
    if letter == "zero":
        return 0.0
    if letter == "small":
        return 0.125 * span / abs(ref.R)
    if letter == "huge":
        return 1.0e6
    if letter == "neg":
        return -50.0 * max(1.0, span / 16)
    # below / above: the drive that puts the integrated voltage just outside the rounding band around the
    # current threshold (adversarial near-threshold drives whose outcome is still well defined)
    def drive(target):
        c = ref.c
        if c in ("LIF", "GLIF1", "ALIF", "GLIF2"):
            d = math.exp(-ref.dt / ref.tau)
            ext = (target - ref.rest - (v - ref.rest) * d) / (1 - d)
            I = ext / ref.R
        elif c in ("QIF", "Izhikevich"):
            need = (target - v) * ref.tau / ref.dt - ref.hp["affinity"] * (v - ref.rest) * (v - ref.hp["crit_v"])
            I = need / ref.R
        else:
            s = ref.hp["sharpness"]
            need = (target - v) * ref.tau / ref.dt + (v - ref.rest) - s * sexp((v - ref.hp["rheobase_v"]) / s)
            I = need / ref.R
        return I if math.isfinite(I) else 0.0

    I0 = drive(theta)
    _, mag = ref.integrate_mag(v, I0)
    if not math.isfinite(mag):
        return a_sum_cur
    margin = 40 * 1e-5 * max(1.0, abs(theta), mag) + span / 64
    return drive(theta + margin if letter == "above" else theta - margin) + a_sum_cur


def check_step(tally, cfg, ref, cname, lock, adapt, before, inputs, out, after, hist_state, case_fn):
    """before/after: (v, r, a) python lists per element; inputs list; out list of bool.
    hist_state: per element dict(last_spike_age=None|int, locked_v=float) - history monitor"""
    dt, rt = ref.dt, ref.rt
    W = ref.window()
    for e in range(2):
        v0, r0 = before[0][e], before[1][e]
        a0 = before[2][e] if before[2] is not None else []
        v1, r1 = after[0][e], after[1][e]
        s = out[e]
        hs = hist_state[e]
        tag = f"{cname}"
        # ---------------- history monitor (no re-simulation)
        if r1 < 0:
            tally.violation(f"refrac-negative:{tag}", case_fn(), f"element {e}: refrac {r1} < 0", ">=0", r1)
        if hs["age"] is not None and hs["age"] < W:
            if s:
                tally.violation(f"spike-in-refractory-window:{tag}", case_fn(), f"element {e} spiked {hs['age'] + 1} step(s) after a spike; "
                                f"refrac_t={rt}, dt={dt}: silent window is {W} step(s)", False, True)
            if lock and v1 != hs["v"]:
                tally.violation(f"voltage-moved-while-locked:{tag}", case_fn(), f"element {e}: voltage {v1} != {hs['v']} "
                                f"{hs['age'] + 1} step(s) after the spike (refrac_lock=True)", hs["v"], v1)
        # ---------------- one-step documented equation
        r_dec = max(r0 - dt, 0.0)
        mask = r_dec == 0.0
        I = inputs[e]
        if cname in ADAPT_CURR:
            I = I - sum(a0)
        theta = ref.thresh + (sum(a0) if cname in ADAPT_THRESH else 0.0)
        if mask:
            v_int, mag = ref.integrate_mag(v0, I)
        else:
            v_int, mag = (v0, abs(v0)) if lock else ref.integrate_mag(v0, 0.0)
        if not math.isfinite(mag):
            mag = math.inf
        # float32 rounding of the summed terms (a few ulps of the largest one)
        tol = 1e-5 * max(1.0, abs(theta), mag)
        band = 10 * tol
        if mask:
            if math.isnan(v_int):
                exp_s = None
            elif abs(v_int - theta) <= band:
                exp_s = None
                tally.add("ambiguous_threshold_cases")
            else:
                exp_s = v_int >= theta
        else:
            exp_s = False
        if exp_s is not None and bool(s) != exp_s:
            what = "missed-spike" if exp_s else ("spike-while-refractory" if not mask else "spurious-spike")
            tally.violation(f"{what}:{tag}", case_fn(), f"element {e}: spike={bool(s)} but integrated voltage {v_int} vs threshold {theta}, "
                            f"remaining refractory {r_dec}", exp_s, bool(s))
        # state after
        if s:
            exp_v = ref.reset(v_int)
            if exp_s is None:
                # GLIF2's reset depends on the integrated voltage, which is only known to float64 here
                pass
            if math.isfinite(exp_v) and math.isfinite(tol) and abs(v1 - exp_v) > 10 * tol:
                tally.violation(f"reset-voltage:{tag}", case_fn(), f"element {e} spiked; voltage {v1}, documented reset {exp_v}", exp_v, v1)
            if abs(r1 - rt) > 0:
                tally.violation(f"refrac-not-set:{tag}", case_fn(), f"element {e} spiked; refrac {r1}, refrac_t {rt}", rt, r1)
        else:
            if math.isfinite(v_int) and math.isfinite(tol) and abs(v1 - v_int) > 10 * tol:
                tally.violation(f"voltage-update:{tag}:{'free' if mask else 'refractory'}", case_fn(), f"element {e}: voltage {v1}, documented "
                                f"update gives {v_int} (from v={v0}, I={I})", v_int, v1)
            if abs(r1 - r_dec) > 1e-6:
                tally.violation(f"refrac-decrement:{tag}", case_fn(), f"element {e}: refrac {r1}, expected {r_dec}", r_dec, r1)
        # adaptation must be untouched when adaptation is off
        if not adapt and before[2] is not None and after[2][e] != before[2][e]:
            tally.violation(f"adaptation-changed-with-adapt-off:{tag}", case_fn(), f"element {e}: {before[2][e]} -> {after[2][e]}", before[2][e], after[2][e])
        # update monitor
        if s:
            hs["age"], hs["v"] = 0, v1
        elif hs["age"] is not None:
            hs["age"] += 1
            if cfg.get("refrac_lock") == "alternating":
                hs["v"] = v1  # the lock is a per-call argument: a locked step holds the voltage of the step before it


def trie_shard(cname, hpi, dt, refrac_t, lock, adapt, T):
    tally = Tally()
    n, hp = make(cname, hpi, dt, refrac_t)
    n.train(adapt)
    ref = Ref(cname, hp, dt, refrac_t)
    letters, _ = alphabet(ref, hp)
    cfg = {"class": cname, "hp": hpi, "dt": dt, "refrac_t": refrac_t, "refrac_lock": lock if lock != "alt" else "alternating", "adapt": adapt}
    # state layout: voltage / refractory time carry the batch dimension, the (batch-reduced) adaptation does not
    a0 = get_adapt(n, cname)
    if tuple(n.voltage.shape) != (1, 2) or tuple(n.refrac.shape) != (1, 2) or (a0 is not None and (a0.ndim != 2 or a0.shape[0] != 2)):
        tally.violation(f"state-layout:{cname}", cfg, f"voltage {tuple(n.voltage.shape)}, refrac {tuple(n.refrac.shape)}, adaptation "
                        f"{None if a0 is None else tuple(a0.shape)} for shape (2,), batch 1 (adaptation is documented as shape x K, without the batch)")
        return tally
    nL = len(letters)
    leaf_counter = [0]
    outcomes = set()

    def snap():
        a = get_adapt(n, cname)
        return (n.voltage.clone(), n.refrac.clone(), None if a is None else a.clone())

    def restore(s):
        n.voltage = s[0].clone()
        n.refrac = s[1].clone()
        if s[2] is not None:
            set_adapt(n, cname, s[2].clone())

    def tolist(s):
        return (s[0].reshape(-1).to(torch.float64).tolist(), s[1].reshape(-1).to(torch.float64).tolist(),
                None if s[2] is None else s[2].reshape(2, -1).to(torch.float64).tolist())

    def rec(depth, hist, hstate, inputs_hist):
        if depth == T:
            leaf_counter[0] += 1
            if leaf_counter[0] % 97 == 1:
                # snapshot/restore validation: replay the whole history on a fresh neuron
                n2, _ = make(cname, hpi, dt, refrac_t)
                n2.train(adapt)
                for j, x in enumerate(inputs_hist):
                    n2(torch.tensor([x], dtype=torch.float32), refrac_lock=(lock if lock != "alt" else (j % 2 == 0)))
                same = torch.equal(n2.voltage, n.voltage) and torch.equal(n2.refrac, n.refrac)
                if not same:
                    raise RuntimeError(f"snapshot/restore diverged from replay for {cfg} {hist}")
                tally.add("replay_validations")
            return
        s0 = snap()
        l0 = tolist(s0)
        if depth >= 1:
            # clear() in the middle of a run (every reachable state): back to rest, out of the refractory period, spike flag
            # down, learned adaptation untouched - the next step then follows the contract from the resting state
            try:
                n.clear()
                tally.add("clear_states")
                v, r = n.voltage.reshape(-1).tolist(), n.refrac.reshape(-1).tolist()
                a1 = get_adapt(n, cname)
                if any(abs(x - ref.rest) > 1e-6 for x in v) or any(x != 0 for x in r):
                    tally.violation(f"clear-not-resting:{cname}", {**cfg, "letters": hist, "inputs": inputs_hist},
                                    f"after clear(): voltage {v} (rest {ref.rest}), remaining refractory {r}", [ref.rest, 0.0], [v, r])
                elif refrac_t > 0 and bool(n.spike.any()):
                    tally.violation(f"clear-spike-flag:{cname}", {**cfg, "letters": hist, "inputs": inputs_hist}, "after clear() the spike attribute is still set")
                if s0[2] is not None and not torch.equal(a1, s0[2]):
                    tally.violation(f"clear-changed-adaptation:{cname}", {**cfg, "letters": hist, "inputs": inputs_hist}, "clear() changed the learned adaptation")
            except Exception as ex:
                tally.violation(f"exception:clear:{cname}:{type(ex).__name__}", {**cfg, "letters": hist}, repr(ex))
        for li in range(nL):
            restore(s0)
            # element 0 gets letter li, element 1 the alphabet rotated by one
            lets = (letters[li], letters[(li + 1) % nL])
            xs = []
            for e in range(2):
                a_sum = sum(l0[2][e]) if (l0[2] is not None and cname in ADAPT_CURR) else 0.0
                theta = ref.thresh + (sum(l0[2][e]) if (l0[2] is not None and cname in ADAPT_THRESH) else 0.0)
                xs.append(float(torch.tensor(letter_value(lets[e], ref, l0[0][e], a_sum, theta), dtype=torch.float32)))
            try:
                xin = torch.tensor([xs], dtype=torch.float32)
                g = Guard(xin)
                lk = lock if lock != "alt" else (depth % 2 == 0)  # "alt": locked on even steps, free on odd ones (a per-call argument)
                out = n(xin, refrac_lock=lk)
            except Exception as ex:
                tally.violation(f"exception:{cname}:{type(ex).__name__}", {**cfg, "letters": hist + [lets[0]]}, repr(ex))
                continue
            # the caller's input tensor comes back untouched, and no state aliases it (it is overwritten before the state is read)
            g.release(tally, f"input-mutated:{cname}", {**cfg, "letters": hist + [lets[0]], "inputs": inputs_hist + [xs]})
            tally.add("steps")
            s1 = snap()
            l1 = tolist(s1)
            o = out.reshape(-1).tolist()
            hs2 = [dict(h) for h in hstate]
            case_fn = lambda: {**cfg, "letters": hist + [lets[0]], "inputs": inputs_hist + [xs]}
            if tuple(out.shape) != (1, 2) or out.dtype != torch.bool:
                tally.violation(f"output-shape-dtype:{cname}", case_fn(), f"{tuple(out.shape)} {out.dtype}")
            check_step(tally, cfg, ref, cname, lk, adapt, l0, xs, o, l1, hs2, case_fn)
            # spike attribute == returned spikes
            attr = n.spike.reshape(-1).tolist()
            if attr != o:
                key = "spike-attr!=output:refrac_t==0" if refrac_t == 0 else f"spike-attr!=output:refrac_t={refrac_t}:dt={dt}"
                tally.violation(key, case_fn(), f"neuron.spike={attr} but the step returned {o} (refrac_t={refrac_t})", o, attr)
            outcomes.add((tuple(o), depth))
            tally.mark("nontrivial", (cname, hpi, dt, refrac_t, lock, adapt, tuple(hist + [lets[0]])) if any(o) else ("silent", cname, hpi, dt, refrac_t, lock, adapt))
            rec(depth + 1, hist + [lets[0]], hs2, inputs_hist + [xs])
        restore(s0)

    rec(0, [], [{"age": None, "v": None}, {"age": None, "v": None}], [])
    tally.add("histories", nL ** T)
    tally.mark("outcomes", (cname, len(outcomes)))
    if hpi == 0 and refrac_t == 2 * dt and lock and adapt:
        tally.sample({**cfg, "T": T, "alphabet": letters, "note": "element 1 receives the alphabet rotated by one"})
    return tally


def worlds_shard(cname, hpi, dt, refrac_t, lock, T):
    """differential worlds over the whole input trie, adaptation on: (J) two neurons in one module in training mode, (S0, S1) each
    of them alone in its own module, (K) the pair in evaluation mode stepped with adapt=True, (F) the pair in training mode stepped
    with adapt=False. J, S and K must agree on voltage, refractory time, adaptation and spikes at every step (a neuron's step does
    not depend on what its neighbours do, and the adapt argument overrides the mode); F's adaptation must never move."""
    tally = Tally()
    hp = HP[cname][hpi]
    ref = Ref(cname, hp, dt, refrac_t)
    letters, _ = alphabet(ref, hp)
    cfg = {"class": cname, "hp": hpi, "dt": dt, "refrac_t": refrac_t, "refrac_lock": lock, "worlds": True}
    adaptive = cname in ADAPT_THRESH + ADAPT_CURR

    def mk(shape, train):
        n = CLS[cname](shape, dt, refrac_t=refrac_t, batch_size=1, **hp)
        n.train(train)
        return n

    J, S0, S1 = mk((2,), True), mk((1,), True), mk((1,), True)
    K, F = (mk((2,), False), mk((2,), True)) if adaptive else (None, None)
    worlds = [w for w in (J, S0, S1, K, F) if w is not None]

    def snap(n):
        a = get_adapt(n, cname)
        return (n.voltage.clone(), n.refrac.clone(), None if a is None else a.clone())

    def restore(n, s):
        n.voltage = s[0].clone()
        n.refrac = s[1].clone()
        if s[2] is not None:
            set_adapt(n, cname, s[2].clone())

    def flat(n):
        a = get_adapt(n, cname)
        return (n.voltage.reshape(-1).tolist(), n.refrac.reshape(-1).tolist(), None if a is None else a.reshape(n.voltage.numel(), -1).tolist())

    f_adapt0 = None if F is None else get_adapt(F, cname).clone()

    def rec(depth, hist, inputs_hist):
        if depth == T:
            return
        snaps = [snap(w) for w in worlds]
        jv, jr, ja = flat(J)
        for li in range(len(letters)):
            for w, sn in zip(worlds, snaps):
                restore(w, sn)
            lets = (letters[li], letters[(li + 2) % len(letters)])
            xs = []
            for e in range(2):
                a_sum = sum(ja[e]) if (ja is not None and cname in ADAPT_CURR) else 0.0
                theta = ref.thresh + (sum(ja[e]) if (ja is not None and cname in ADAPT_THRESH) else 0.0)
                xs.append(float(torch.tensor(letter_value(lets[e], ref, jv[e], a_sum, theta), dtype=torch.float32)))
            case = {**cfg, "letters": hist + [lets[0]], "inputs": inputs_hist + [xs]}
            try:
                oj = J(torch.tensor([xs]), refrac_lock=lock)
                o0 = S0(torch.tensor([xs[:1]]), refrac_lock=lock)
                o1 = S1(torch.tensor([xs[1:]]), refrac_lock=lock)
                ok = K(torch.tensor([xs]), adapt=True, refrac_lock=lock) if K is not None else None
                of = F(torch.tensor([xs]), adapt=False, refrac_lock=lock) if F is not None else None
            except Exception as ex:
                tally.violation(f"exception:worlds:{cname}:{type(ex).__name__}", case, repr(ex))
                continue
            tally.add("steps", len(worlds))
            fj, f0, f1 = flat(J), flat(S0), flat(S1)
            solo = ([f0[0][0], f1[0][0]], [f0[1][0], f1[1][0]], None if fj[2] is None else [f0[2][0], f1[2][0]])
            so = [bool(o0.reshape(-1)[0]), bool(o1.reshape(-1)[0])]
            bad = False
            if oj.reshape(-1).tolist() != so or fj != solo:
                bad = True
                tally.violation(f"neighbour-dependent-step:{cname}", case, f"two neurons stepped in one module: spikes {oj.reshape(-1).tolist()}, "
                                f"(voltage, refrac, adaptation) {fj}; each stepped alone with the same inputs from the same state: {so}, {solo}", solo, fj)
            if K is not None:
                fk = flat(K)
                if ok.reshape(-1).tolist() != oj.reshape(-1).tolist() or fk != fj:
                    bad = True
                    tally.violation(f"adapt-kwarg-true-in-eval:{cname}", case, f"evaluation mode with adapt=True gives {fk}, training mode with "
                                    f"the default gives {fj} (the adapt argument is documented to override the mode)", fj, fk)
                if not torch.equal(get_adapt(F, cname), f_adapt0):
                    bad = True
                    tally.violation(f"adapt-kwarg-false-in-train:{cname}", case, f"training mode with adapt=False: adaptation moved to "
                                    f"{get_adapt(F, cname).tolist()}", f_adapt0.tolist(), get_adapt(F, cname).tolist())
            if any(so):
                tally.mark("nontrivial", ("worlds", cname, hpi, dt, refrac_t, lock, tuple(hist + [lets[0]])))
            if not bad:
                rec(depth + 1, hist + [lets[0]], inputs_hist + [xs])
        for w, sn in zip(worlds, snaps):
            restore(w, sn)

    rec(0, [], [])
    tally.add("histories", len(letters) ** T)
    return tally


def comparator_shard():
    """>= at threshold on exactly representable states built through the public setters"""
    tally = Tally()
    for cname in ("LIF", "GLIF1", "ALIF", "GLIF2", "QIF", "Izhikevich"):
        for dt, tau in ((1.0, 2.0), (0.5, 1.0)):
            for delta in (0.0, -2.0 ** -10, 2.0 ** -10):
                hp = dict(HP[cname][0])
                if "time_constant" in hp:
                    hp["time_constant"] = tau
                else:
                    hp["tc_membrane"] = tau
                n = CLS[cname]((2,), dt, refrac_t=dt, batch_size=1, **hp)
                n.train(False)
                theta, rest, R = 2.0, 0.0, 1.0
                if cname in ("QIF", "Izhikevich"):
                    v0 = 1.5
                    # v + (dt/tau)(a (v-rest)(v-crit) + R I) == theta + delta with dt/tau = 1/2
                    I = ((theta + delta - v0) * 2.0 - 0.75) / R
                else:
                    v0 = theta + delta
                    I = (v0 - rest) / R  # R*I == v - rest  =>  v_int == v exactly
                n.voltage = torch.tensor([[v0, v0]])
                out = n(torch.tensor([[I, I]]), refrac_lock=True).reshape(-1).tolist()
                exp = delta >= 0
                tally.add("evaluations")
                tally.mark("nontrivial", ("cmp", cname, dt, delta))
                if out != [exp, exp]:
                    tally.violation(f"threshold-comparator:{cname}", {"class": cname, "dt": dt, "v_int_minus_thresh": delta, "v0": v0, "I": I},
                                    f"integrated voltage is exactly threshold{delta:+g}: spikes={out}, expected {exp}", exp, out)
    tally.sample({"part": "comparator", "deltas": [0.0, -2.0 ** -10, 2.0 ** -10]})
    return tally


def run(rep):
    quick = rep.tier == "quick"
    T = 4 if quick else 6
    jobs = [(comparator_shard, ())]
    for cname in CLS:
        for hpi in range(len(HP[cname])):
            for dt in (1.0, 0.5):
                for k in (0.0, 0.5, 1.0, 1.5, 2.0, 3.0):
                    for lock in (True, False):
                        for adapt in (True, False):
                            if cname not in ADAPT_THRESH + ADAPT_CURR and not adapt:
                                continue
                            if quick and hpi == 1 and (k in (0.5, 3.0) or not lock):
                                continue
                            # third set (self-exciting reset, legal but unusual): the refractory mask is what keeps the neuron silent
                            if hpi == 2 and (k not in (2.0, 3.0) or (quick and dt != 1.0)):
                                continue
                            jobs.append((trie_shard, (cname, hpi, dt, k * dt, lock, adapt, T)))
                            if adapt and hpi == 0 and dt == 1.0 and k in (0.0, 1.5, 3.0) and (lock or k == 3.0):
                                jobs.append((worlds_shard, (cname, hpi, dt, k * dt, lock, T)))
                            if lock and adapt and hpi == 0 and k == 3.0 and dt == 1.0:
                                # the lock toggled from step to step inside one refractory period
                                jobs.append((trie_shard, (cname, hpi, dt, k * dt, "alt", adapt, T)))
    tally = run_shards(jobs, seed=rep.seed)
    rep.tally.merge(tally)
    c = tally.counts
    rep.assumptions += [
        "float64 re-evaluation of the documented update equation with relative tolerance 1e-4; a step whose integrated voltage is "
        "within 1e-4 of the threshold accepts either outcome (counted as ambiguous_threshold_cases)",
        "input alphabet {0, sub-threshold, critical drive, 1e6, strongly negative}, two neurons (second gets the rotated alphabet), batch 1",
        "EIF/AdEx threshold comparator is not tested on exact states (exp is not exactly representable)",
    ]
    cov = {
        "states": c.get("steps", 0) + len(jobs),
        "transitions": c.get("steps", 0),
        "traces_validated_against_impl": c.get("histories", 0),
        "snapshot_replay_validations": c.get("replay_validations", 0),
        "history_length": T,
        "configurations": len(jobs) - 1,
        "ambiguous_threshold_cases": c.get("ambiguous_threshold_cases", 0),
        "exhaustive": True,
        "evaluations": c.get("steps", 0) + c.get("evaluations", 0),
        "distinct_nontrivial": len(tally.sets.get("nontrivial", ())),
        "rule": "every input history of length <= T over the 5-letter alphabet for every (class, hyper-parameter set, dt, refrac_t, "
                "refrac_lock, adapt) configuration, walked as a trie (states = trie nodes, transitions = real neuron steps); "
                "non-trivial = distinct histories whose last step emitted a spike",
    }
    return rep.finish(cov, floors={"transitions": 50000, "distinct_nontrivial": 1000})


def replay(case):
    if "letters" not in case:
        return {"violations": [], "note": "comparator case; see record"}
    n, hp = make(case["class"], case["hp"], case["dt"], case["refrac_t"])
    n.train(case["adapt"])
    trace = []
    for xs in case["inputs"]:
        out = n(torch.tensor([xs], dtype=torch.float32), refrac_lock=case["refrac_lock"])
        trace.append({"in": xs, "out": out.reshape(-1).tolist(), "spike_attr": n.spike.reshape(-1).tolist(),
                      "v": n.voltage.reshape(-1).tolist(), "refrac": n.refrac.reshape(-1).tolist()})
    return {"violations": [], "trace": trace}
