"""C04 - synapse currents equal the impulse-response sum; delayed reads see the past (E2).

All boolean spike histories (2 synapse elements) up to length T are run on the real synapse, in-place
and out-of-place in lockstep. After every step the returned current, .current, .spike and every delayed
read on the half-step selector grid (uniform, heterogeneous per element, all-at-once trailing D) are
compared with closed forms computed from the history alone: sum over past spikes of the documented
response, the value k steps ago (rest before the start), the synapse's interpolation rule between
steps and the overbound rule beyond the supported delay.
"""

from __future__ import annotations

import itertools
import math
from fractions import Fraction as F

import torch

import inferno
from inferno.neural import DeltaCurrent, DeltaPlusCurrent, SingleExponentialCurrent, DoubleExponentialCurrent

from mc.common import Tally, Guard
from mc.pool import run_shards

ID = "C04"
LEVEL = "model_checking"

Q = 2.0
TAU = 2.0
TD, TR = 4.0, 1.0
CLASSES = ("delta", "deltaplus", "exp", "dexp")


def build(cname, dt, delay, mode, tol, cur_ob, spk_ob, B, inplace, shape=(2,)):
    kw = dict(delay=delay, interp_tol=tol, current_overbound=cur_ob, spike_overbound=spk_ob, batch_size=B, inplace=inplace)
    if cname == "delta":
        return DeltaCurrent(shape, dt, spike_charge=Q, interp_mode=mode, **kw)
    if cname == "deltaplus":
        return DeltaPlusCurrent(shape, dt, spike_charge=Q, interp_mode=mode, **kw)
    if cname == "exp":
        return SingleExponentialCurrent(shape, dt, spike_charge=Q, time_constant=TAU, spike_interp_mode=mode, **kw)
    return DoubleExponentialCurrent(shape, dt, spike_charge=Q, tc_decay=TD, tc_rise=TR, spike_interp_mode=mode, **kw)


def response(cname, age, dt):
    """documented impulse response at a given age (time since the spike's step)"""
    if cname in ("delta", "deltaplus"):
        return Q / dt if age == 0 else 0.0
    if cname == "exp":
        return Q / TAU * math.exp(-age / TAU)
    return Q / (TD - TR) * (math.exp(-age / TD) - math.exp(-age / TR))


INJ = (None, 0.5, -1.0)


class RefHist:
    """reference values per step from the history alone"""

    def __init__(self, cname, dt):
        self.c, self.dt = cname, dt
        self.spk = []  # per step: [[b][e]] bool
        self.cur = []  # per step current
        self.pos = []  # dexp components (for interpolation, which is per component)
        self.neg = []

    def step(self, spikes, inj):
        self.spk.append(spikes)
        t = len(self.spk) - 1
        B = len(spikes)
        cur = [[0.0, 0.0] for _ in range(B)]
        pos = [[0.0, 0.0] for _ in range(B)]
        neg = [[0.0, 0.0] for _ in range(B)]
        for b in range(B):
            for e in range(2):
                for u in range(t + 1):
                    if self.spk[u][b][e]:
                        age = (t - u) * self.dt
                        cur[b][e] += response(self.c, age, self.dt)
                        if self.c == "dexp":
                            pos[b][e] += Q / (TD - TR) * math.exp(-age / TD)
                            neg[b][e] += Q / (TD - TR) * math.exp(-age / TR)
                if self.c == "deltaplus" and inj is not None:
                    cur[b][e] += inj
        self.cur.append(cur)
        self.pos.append(pos)
        self.neg.append(neg)

    def at(self, series, k, b, e, rest):
        t = len(self.spk) - 1 - k
        return series[t][b][e] if t >= 0 else rest

    def delayed(self, what, sel, b, e, delay, mode, tol, ob):
        """documented value of current_at/spike_at for selector sel (Fraction) - returns float/bool"""
        dt = F(self.dt)
        delay = F(delay)
        tol = F(tol)
        N = max(math.ceil(delay / dt) + 1, 1)
        bounded = min(max(sel, F(0)), delay) if N > 1 else F(0)
        over = abs(sel - bounded) > tol
        if over and ob is not None:
            return ob
        if N == 1:
            s_k = ("exact", 0)
        else:
            s = bounded / dt
            r = round(s)
            if abs(dt * r - bounded) <= tol:
                s_k = ("exact", r)
            else:
                s_k = ("between", math.ceil(s), math.floor(s), float(dt * (math.ceil(s) - s)))

        def val(series, k, rest):
            return self.at(series, k, b, e, rest)

        if what == "spike" or self.c == "delta":
            series, rest = self.spk, False
            if s_k[0] == "exact":
                v = val(series, s_k[1], rest)
            else:
                _, c, f_, el = s_k
                if mode == "previous":
                    v = val(series, c, rest)
                else:
                    v = val(series, f_, rest) if el / self.dt > 0.5 else val(series, c, rest)
            if what == "spike":
                return bool(v)
            return (Q / self.dt) if v else 0.0
        if self.c == "deltaplus":
            series = self.cur
            if s_k[0] == "exact":
                return val(series, s_k[1], 0.0)
            _, c, f_, el = s_k
            if mode == "previous":
                return val(series, c, 0.0)
            return val(series, f_, 0.0) if el / self.dt > 0.5 else val(series, c, 0.0)
        if self.c == "exp":
            if s_k[0] == "exact":
                return val(self.cur, s_k[1], 0.0)
            _, c, f_, el = s_k
            return val(self.cur, c, 0.0) * math.exp(-el / TAU)
        # dexp: each component decays with its own constant
        if s_k[0] == "exact":
            return val(self.cur, s_k[1], 0.0)
        _, c, f_, el = s_k
        return val(self.pos, c, 0.0) * math.exp(-el / TD) - val(self.neg, c, 0.0) * math.exp(-el / TR)


def selector_grid(dt, delay, tol):
    dt, delay, tol = F(dt), F(delay), F(tol)
    # quarter steps: a half step cannot tell "nearest" from "previous" (the rules coincide at exactly dt/2)
    g = [dt * F(i, 4) for i in range(0, int(4 * delay / dt) + 1)]
    g += [delay, delay + tol, delay + dt, F(-1) * dt]
    if tol > 0:
        g += [delay + tol / 2, delay + 2 * tol, tol, -tol]
    out = []
    for x in g:
        if x not in out:
            out.append(x)
    return out


def close(a, b):
    if isinstance(b, bool):
        return bool(a) == b
    return abs(float(a) - b) <= 1e-5 * max(1.0, abs(b))


def shard(cname, dt, delayk, mode, tol_k, ob_kind, B, T, via="ctor", shape=(2,)):
    """via: how the synapse got its configuration - constructor, or constructed with another maximum delay / step time and then
    assigned ``delay`` / ``dt`` through the public setters before the run (every delayed history must follow)"""
    tally = Tally()
    delay = delayk * dt
    tol = tol_k * dt
    # "mixed": the two out-of-bounds values disagree in truthiness (current 7.0, spikes False), so neither can stand in for the other
    cur_ob = {"cfg": 7.0, "none": None, "zero": 0.0, "mixed": 7.0, "mixed2": 0.0}[ob_kind]
    spk_ob = {"cfg": True, "none": None, "zero": False, "mixed": False, "mixed2": True}[ob_kind]
    cfg = {"class": cname, "dt": dt, "delay": delay, "interp_mode": mode, "tol": tol, "overbound": ob_kind, "B": B, "configured_via": via, "synapse_shape": list(shape)}
    grid = selector_grid(dt, delay, tol)
    elems = list(itertools.product((False, True), repeat=2))

    def run_history(hist):
        """replay on fresh in-place and out-of-place synapses; check the last step fully"""
        syns = []
        for ip in (False, True):
            try:
                if via == "ctor":
                    syns.append(build(cname, dt, delay, mode, tol, cur_ob, spk_ob, B, ip, shape))
                elif via == "delay-setter":
                    sy = build(cname, dt, dt if delay != dt else 2 * dt, mode, tol, cur_ob, spk_ob, B, ip)
                    sy.delay = delay
                    syns.append(sy)
                elif via == "delay-setter-near":
                    # reassigned to a maximum delay that needs the same number of stored steps (2.5 dt <- 3 dt, 1 dt <- 0.5 dt)
                    k = delay / dt
                    start = math.ceil(k) * dt if k != int(k) else delay - dt / 2
                    sy = build(cname, dt, start, mode, tol, cur_ob, spk_ob, B, ip)
                    sy.delay = delay
                    syns.append(sy)
                else:
                    sy = build(cname, 2 * dt, delay, mode, tol, cur_ob, spk_ob, B, ip)
                    sy.dt = dt
                    syns.append(sy)
            except Exception as ex:
                tally.violation(f"exception:construct:{cname}:{via}:{type(ex).__name__}", {**cfg, "history": hist}, repr(ex))
                return False
        ref = RefHist(cname, dt)
        outs = [None, None]
        for t, letter in enumerate(hist):
            spikes = [list(elems[(letter + b) % 4]) if b else list(elems[letter]) for b in range(B)]
            # sample b gets the history letter rotated by b (forced to differ from sample 0)
            inj = INJ[t % 3] if cname == "deltaplus" else None
            ref.step(spikes, inj)
            x = torch.tensor(spikes, dtype=torch.bool).reshape(B, *shape)
            for i, syn in enumerate(syns):
                args = (x.clone(),) if inj is None else (x.clone(), torch.full((B, *shape), inj))
                g = Guard(*args)
                outs[i] = syn(*args)
                # inputs come back untouched and are not aliased by the spike / current history (overwritten before any read)
                g.release(tally, f"input-mutated:{cname}:{'inplace' if i else 'outofplace'}", {**cfg, "history": hist, "step": t})
        t = len(hist) - 1
        case = {**cfg, "history": hist}
        ok = True
        for i, syn in enumerate(syns):
            ip = bool(i)
            tag = f"{cname}:{'inplace' if ip else 'outofplace'}"
            ret = outs[i]
            if tuple(ret.shape) != (B, *shape):
                tally.violation(f"forward-shape:{tag}", case, f"forward returned shape {tuple(ret.shape)}")
                return False
            ret = ret.reshape(B, 2)
            cur_attr, spk_attr = syn.current.reshape(B, 2), syn.spike.reshape(B, 2)
            for b in range(B):
                for e in range(2):
                    exp = ref.cur[t][b][e]
                    if not close(ret[b, e], exp):
                        tally.violation(f"forward-current:{tag}", case, f"returned current[{b},{e}]={float(ret[b, e])}, impulse-response sum {exp}", exp, float(ret[b, e]))
                        ok = False
                    if not close(cur_attr[b, e], exp):
                        tally.violation(f"current-attr:{tag}", case, f".current[{b},{e}]={float(cur_attr[b, e])}, reference {exp}", exp, float(cur_attr[b, e]))
                        ok = False
                    if bool(spk_attr[b, e]) != ref.spk[t][b][e]:
                        tally.violation(f"spike-attr:{tag}", case, f".spike[{b},{e}]={bool(spk_attr[b, e])}, input spike {ref.spk[t][b][e]}", ref.spk[t][b][e], bool(spk_attr[b, e]))
                        ok = False
            # delayed reads
            for what, obv in (("current", cur_ob), ("spike", spk_ob)):
                fn = syn.current_at if what == "current" else syn.spike_at
                # all selectors at once in a trailing dimension
                selD = torch.tensor([[[float(s) for s in grid]] * 2] * B)
                sets = [("D", selD, [[list(grid)] * 2] * B)]
                # heterogeneous per-element selectors without the trailing dimension: two pairs per node, rotating
                # with the history so that every pair of grid neighbours is used across the trie
                if not ip:
                    h0 = sum((i + 1) * (x + 1) for i, x in enumerate(hist))
                    for gi in (h0 % len(grid), (h0 + len(hist) * 3 + 1) % len(grid)):
                        s, s2 = grid[gi], grid[(gi + 1) % len(grid)]
                        sets.append(("het", torch.tensor([[float(s), float(s2)]] * B), [[[s], [s2]]] * B))
                        tally.mark("het_pairs", (len(grid), gi))
                for kind, sel, selref in sets:
                    sel = sel.reshape(B, *shape, -1) if kind == "D" else sel.reshape(B, *shape)
                    tally.add("queries")
                    try:
                        got = fn(sel)
                    except Exception as ex:
                        tally.violation(f"exception:{what}_at:{cname}:{type(ex).__name__}:ob={ob_kind}", {**case, "selector": sel.tolist()},
                                        f"{what}_at raised {type(ex).__name__}: {ex}", None, repr(ex))
                        ok = False
                        continue
                    if tuple(got.shape) != tuple(sel.shape):
                        tally.violation(f"{what}_at-shape:{tag}", {**case, "selector": sel.tolist()}, f"shape {tuple(got.shape)} for selector {tuple(sel.shape)}")
                        ok = False
                        continue
                    g2 = got.reshape(B, 2, -1)
                    for b in range(B):
                        for e in range(2):
                            for j, s in enumerate(selref[b][e]):
                                exp = ref.delayed(what, s, b, e, delay, mode, tol, obv)
                                gv = g2[b, e, j]
                                if not close(gv, exp):
                                    zone = "beyond" if (s > F(delay) + F(tol) or s < -F(tol)) else ("on-grid" if (s / F(dt)).denominator == 1 else "between")
                                    tally.violation(f"{what}_at:{zone}:{cname}:tol={'0' if tol == 0 else '>0'}:ob={ob_kind}", {**case, "selector": float(s), "b": b, "e": e, "inplace": ip},
                                                    f"{what}_at({float(s)})[{b},{e}] = {gv.item()}, reference {exp} (delay {delay}, tol {tol})", exp, gv.item())
                                    ok = False
        # in-place and out-of-place agree bitwise
        if not torch.equal(outs[0], outs[1]):
            tally.violation(f"inplace!=outofplace:{cname}", case, f"{outs[0].tolist()} vs {outs[1].tolist()}")
            ok = False
        return ok

    # trie: every history of length 1..T (a failing prefix is not extended)
    frontier = [[]]
    for depth in range(1, T + 1):
        nxt = []
        for h in frontier:
            for letter in range(4):
                hist = h + [letter]
                tally.add("steps")
                okk = run_history(hist)
                if any(elems[x] != (False, False) for x in hist):
                    tally.mark("nontrivial", (cname, dt, delay, mode, tol, ob_kind, B, tuple(hist)))
                if okk:
                    nxt.append(hist)
        frontier = nxt
    tally.add("histories", 4 ** T)
    if delayk == 2.0 and mode == "previous" and tol_k == 0 and ob_kind == "cfg" and B == 1:
        tally.sample({**cfg, "T": T, "selector_grid": [float(s) for s in grid], "history_letters": "pairs (e0,e1) in order FF,FT,TF,TT"})
    return tally


def run(rep):
    quick = rep.tier == "quick"
    T = 3 if quick else 4
    jobs = []
    for cname in CLASSES:
        for dt in (1.0, 0.5):
            for delayk in (0.0, 0.5, 1.0, 2.0, 2.5):  # 0.5: a maximum delay shorter than one step (two slots, off-grid reads)
                for mode in ("previous", "nearest"):
                    for tol_k in (0.0, 0.25):
                        for ob in ("cfg", "none", "zero"):
                            for B in (1, 2):
                                if quick and B == 2 and (ob == "zero" or mode == "nearest"):
                                    continue
                                jobs.append((shard, (cname, dt, delayk, mode, tol_k, ob, B, T)))
                                if B == 2 and ob == "cfg" and tol_k == 0.0 and mode == "previous" and delayk in (0.0, 2.0):
                                    # multi-dimensional / singleton synapse shapes (trailing-D selectors broadcast over all of them)
                                    for shp in ((1, 2), (2, 1), (2, 1, 1)):
                                        jobs.append((shard, (cname, dt, delayk, mode, tol_k, ob, B, T, "ctor", shp)))
                                if B == 1 and ob == "cfg" and tol_k == 0.0 and mode == "previous" and delayk in (0.0, 2.0):
                                    jobs.append((shard, (cname, dt, delayk, mode, tol_k, "mixed", B, T)))
                                    jobs.append((shard, (cname, dt, delayk, mode, tol_k, "mixed2", B, T)))
                                if B == 1 and ob == "cfg" and tol_k == 0.0 and mode == "previous" and delayk in (1.0, 2.5):
                                    jobs.append((shard, (cname, dt, delayk, mode, tol_k, ob, B, T, "delay-setter")))
                                    jobs.append((shard, (cname, dt, delayk, mode, tol_k, ob, B, T, "delay-setter-near")))
                                    jobs.append((shard, (cname, dt, delayk, mode, tol_k, ob, B, T, "dt-setter")))
    tally = run_shards(jobs, seed=rep.seed)
    rep.tally.merge(tally)
    c = tally.counts
    rep.assumptions += [
        "selectors on the quarter-step grid plus max+tol/2, max+tol, max+2tol, max+dt, -dt, +-tol; step times 1.0 and 0.5 (dyadic) so grid "
        "classification is exact; float comparison 1e-5 relative",
        "delta-plus injected current follows the fixed cycle (none, 0.5, -1) over steps rather than being enumerated",
        "batch sample b receives sample 0's history letter rotated by b",
    ]
    cov = {
        "states": c.get("steps", 0),
        "transitions": c.get("steps", 0),
        "traces_validated_against_impl": c.get("steps", 0),
        "delayed_read_queries": c.get("queries", 0),
        "history_length": T,
        "configurations": len(jobs),
        "exhaustive": True,
        "evaluations": c.get("steps", 0) + c.get("queries", 0),
        "distinct_nontrivial": len(tally.sets.get("nontrivial", ())),
        "rule": "every boolean history (2 elements) of length <= T for every (class, dt, max delay, interp mode, tolerance, overbound "
                "kind, batch) configuration; states = trie nodes, each replayed on fresh in-place and out-of-place synapses and fully "
                "queried; non-trivial = distinct histories containing at least one spike",
    }
    return rep.finish(cov, floors={"transitions": 20000, "delayed_read_queries": 100000})


def replay(case):
    cur_ob = {"cfg": 7.0, "none": None, "zero": 0.0, "mixed": 7.0, "mixed2": 0.0}[case["overbound"]]
    spk_ob = {"cfg": True, "none": None, "zero": False, "mixed": False, "mixed2": True}[case["overbound"]]
    B = case["B"]
    syn = build(case["class"], case["dt"], case["delay"], case["interp_mode"], case["tol"], cur_ob, spk_ob, B, case.get("inplace", False))
    elems = list(itertools.product((False, True), repeat=2))
    out = {"violations": [], "trace": []}
    for t, letter in enumerate(case["history"]):
        spikes = [list(elems[(letter + b) % 4]) if b else list(elems[letter]) for b in range(B)]
        inj = INJ[t % 3] if case["class"] == "deltaplus" else None
        x = torch.tensor(spikes, dtype=torch.bool)
        args = (x,) if inj is None else (x, torch.full((B, 2), inj))
        out["trace"].append({"spikes": spikes, "current": syn(*args).tolist()})
    if "selector" in case and not isinstance(case["selector"], list):
        sel = torch.full((B, 2), float(case["selector"]))
        for nm in ("current_at", "spike_at"):
            try:
                out[nm] = getattr(syn, nm)(sel).tolist()
            except Exception as ex:
                out[nm] = repr(ex)
    return out
