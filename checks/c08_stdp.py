"""C08 - STDP-family weight changes equal the documented sum over spike pairs (E2).

Driver: Serial(connection, ExactNeuron) with overridden postsynaptic spikes (see trainer_common).
Reference: computed from the (pre, post) history alone - pair sums with presynaptic times shifted by
each synapse's delay; MSTDP multiplies a step by gamma*M_b(t); MSTDPET filters the contribution stream;
triplet STDP multiplies pair terms by (1 + slow trace of the triggering population one step earlier).

Part A: ALL pre/post histories (as the batch dimension, identity batch reduction) - the accumulated
        potentiating minus depressing part after every step must equal the per-history reference.
Part B: all pairs of short histories with real batch reductions (mean / sum), per-sample reward signals,
        and the applied weight after Connection.update().
"""

from __future__ import annotations

import itertools
import math

import torch

import inferno
from inferno.learn import STDP, TripletSTDP, MSTDP, MSTDPET

from mc.common import Tally
from mc.pool import run_shards
from checks.trainer_common import Cellspec, all_histories, shifted_pre, trace, prev, identity_reduction, F64, step_layer

ID = "C08"
LEVEL = "model_checking"

SIGNS = {"hebbian": (1.0, -1.0), "anti": (-1.0, 1.0), "pot": (1.0, 1.0), "dep": (-1.0, -1.0)}
# one side switched off exactly: only used for per-cell overrides (an override of exactly 0.0 is a value, not "use the default")
SIGNS_ZERO = {"postonly": (1.0, 0.0), "preonly": (0.0, -1.0)}


def signs_of(sign):
    return SIGNS[sign] if sign in SIGNS else SIGNS_ZERO[sign]


LRP, LRN = 0.5, 0.25  # |lr_post|, |lr_pre|
TC_POST, TC_PRE, TC_Z = 4.0, 2.0, 3.0
TRIP = dict(tc_post_fast=2.0, tc_post_slow=8.0, tc_pre_fast=3.0, tc_pre_slow=6.0, lr_post_triplet=0.125, lr_pre_triplet=0.0625)


def make_trainer(kind, sign, mode, delayed, reduction):
    sp, sn = SIGNS[sign]
    if kind == "stdp":
        return STDP(sp * LRP, sn * LRN, TC_POST, TC_PRE, delayed=delayed, trace_mode=mode, batch_reduction=reduction)
    if kind == "mstdp":
        return MSTDP(sp * LRP, sn * LRN, TC_POST, TC_PRE, delayed=delayed, trace_mode=mode, batch_reduction=reduction)
    if kind == "mstdpet":
        return MSTDPET(sp * LRP, sn * LRN, TC_POST, TC_PRE, TC_Z, trace_mode=mode, batch_reduction=reduction)
    if kind == "triplet":
        return TripletSTDP(sp * LRP, TRIP["lr_post_triplet"], sn * LRN, TRIP["lr_pre_triplet"], TRIP["tc_post_fast"], TRIP["tc_post_slow"],
                           TRIP["tc_pre_fast"], TRIP["tc_pre_slow"], delayed=delayed, trace_mode=mode, batch_reduction=reduction)
    raise ValueError(kind)


def make_trainer_overridden(kind, sign, mode, delayed, reduction):
    """The constructor's hyper-parameters are defaults that register_cell(..., **overrides) may replace cell by cell: returns a
    trainer built with *decoy* defaults (opposite signs, swapped magnitudes and time constants, the other trace mode, the other
    delay mode, another reduction) and the overrides that make the cell behave like ``make_trainer(kind, sign, mode, delayed,
    reduction)``. Anything still read from the trainer-level default instead of the per-cell state gives a wrong update."""
    sp, sn = signs_of(sign)
    dsp, dsn = (sp or 1.0), (sn or -1.0)  # decoys are never zero
    other = "nearest" if mode == "cumulative" else "cumulative"
    decoy_red = torch.amax
    red = reduction if reduction is not None else (torch.sum if kind in ("mstdp", "mstdpet") else torch.mean)
    if kind == "stdp":
        tr = STDP(-dsp * LRN, -dsn * LRP, TC_PRE, TC_POST, delayed=not delayed, trace_mode=other, batch_reduction=decoy_red)
        ov = dict(lr_post=sp * LRP, lr_pre=sn * LRN, tc_post=TC_POST, tc_pre=TC_PRE, delayed=delayed, trace_mode=mode, batch_reduction=red)
    elif kind == "mstdp":
        tr = MSTDP(-dsp * LRN, -dsn * LRP, TC_PRE, TC_POST, delayed=not delayed, trace_mode=other, batch_reduction=decoy_red)
        ov = dict(lr_post=sp * LRP, lr_pre=sn * LRN, tc_post=TC_POST, tc_pre=TC_PRE, delayed=delayed, trace_mode=mode, batch_reduction=red)
    elif kind == "mstdpet":
        tr = MSTDPET(-dsp * LRN, -dsn * LRP, TC_PRE, TC_POST, TC_Z * 2, trace_mode=other, batch_reduction=decoy_red)
        ov = dict(lr_post=sp * LRP, lr_pre=sn * LRN, tc_post=TC_POST, tc_pre=TC_PRE, tc_eligibility=TC_Z, trace_mode=mode, batch_reduction=red)
    else:
        tr = TripletSTDP(-dsp * LRN, TRIP["lr_pre_triplet"], -dsn * LRP, TRIP["lr_post_triplet"], TRIP["tc_pre_fast"], TRIP["tc_pre_slow"],
                         TRIP["tc_post_fast"], TRIP["tc_post_slow"], delayed=not delayed, trace_mode=other, batch_reduction=decoy_red)
        ov = dict(lr_post_pair=sp * LRP, lr_post_triplet=TRIP["lr_post_triplet"], lr_pre_pair=sn * LRN, lr_pre_triplet=TRIP["lr_pre_triplet"],
                  tc_post_fast=TRIP["tc_post_fast"], tc_post_slow=TRIP["tc_post_slow"], tc_pre_fast=TRIP["tc_pre_fast"], tc_pre_slow=TRIP["tc_pre_slow"],
                  delayed=delayed, trace_mode=mode, batch_reduction=red)
    return tr, ov


def reference(kind, sign, mode, dt, pre_syn, post, K, signal=None, gamma=1.0):
    """per-sample signed contribution stream: returns (T, B, F, N) float64 = (pos - neg) before batch reduction,
    and the per-sample potentiating / depressing magnitudes"""
    sp, sn = signs_of(sign)
    T, B, N, L = pre_syn.shape
    Fn = post.shape[2]
    pre_s = shifted_pre(pre_syn, K)  # (T,B,F,N,L)
    post_e = post.unsqueeze(3).expand(T, B, Fn, N, L)  # (T,B,F,N,L)
    if kind == "triplet":
        xa = trace(pre_s, dt, TRIP["tc_pre_fast"], LRP, mode)
        ya = trace(post_e, dt, TRIP["tc_post_fast"], LRN, mode)
        xb = prev(trace(pre_s, dt, TRIP["tc_pre_slow"], TRIP["lr_pre_triplet"] / LRN, mode))
        yb = prev(trace(post_e, dt, TRIP["tc_post_slow"], TRIP["lr_post_triplet"] / LRP, mode))
        dpost = (post_e.to(F64) * (1 + yb) * xa).sum(-1)
        dpre = (pre_s.to(F64) * (1 + xb) * ya).sum(-1)
    else:
        x_pre = trace(pre_s, dt, TC_PRE, LRP, mode)
        x_post = trace(post_e, dt, TC_POST, LRN, mode)
        dpost = (post_e.to(F64) * x_pre).sum(-1)  # (T,B,F,N)
        dpre = (pre_s.to(F64) * x_post).sum(-1)
    if kind == "mstdpet":
        zp = torch.zeros_like(dpost)
        zn = torch.zeros_like(dpre)
        d = math.exp(-dt / TC_Z)
        for t in range(T):
            zp[t] = (zp[t - 1] * d if t else 0) + dpost[t] / TC_Z
            zn[t] = (zn[t - 1] * d if t else 0) + dpre[t] / TC_Z
        dpost, dpre = zp, zn
    if kind in ("mstdp", "mstdpet"):
        m = signal.to(F64).reshape(T, B, 1, 1) * gamma
        return sp * dpost * m, sn * dpre * m
    return sp * dpost, sn * dpre


def signal_for(t, B, pattern):
    """per-sample reward at step t"""
    base = {"pos": 1.0, "neg": -1.0, "half": 0.5}[pattern] if pattern in ("pos", "neg", "half") else None
    if base is not None:
        return torch.full((B,), base)
    if pattern == "stepalt":  # the same (scalar) signal for every sample, changing sign and size over the steps
        return torch.full((B,), (1.0, -1.0, 0.5, -0.5)[t % 4])
    # alternating signs across samples and steps
    return torch.tensor([(1.0 if (b + t) % 2 == 0 else -1.0) * (0.5 if b % 3 == 0 else 1.0) for b in range(B)])


def drive(tally, case, spec, dt, trainer, layer, pre_bits, post_bits, sigs, gamma, scalar_signal=False):
    """steps the real layer+trainer; returns list of (pos, neg) accumulator tensors per step (before update) or None"""
    T = len(pre_bits)
    out = []
    kind = case["trainer"]
    for t in range(T):
        try:
            step_layer(layer, spec.pre_tensor(pre_bits[t]), spec.post_tensor(post_bits[t]))
            if kind in ("mstdp", "mstdpet"):
                sg = float(sigs[t][0]) if scalar_signal else sigs[t]
                trainer(sg, gamma)
            else:
                trainer()
        except Exception as ex:
            tally.violation(f"exception:{kind}:{case.get('delayed_mode')}:{type(ex).__name__}", {**case, "step": t}, f"{type(ex).__name__}: {ex}", None, repr(ex))
            return None
        acc = layer.connection.updater.weight
        pos, neg = acc.pos, acc.neg
        out.append((None if pos is None else pos.clone(), None if neg is None else neg.clone()))
    return out


def history_shard(kind, conn, nio, T, dt, sign, mode, delay_cfg, sigpat, override=False):
    """Part A: all histories as batch, identity reduction. override: the hyper-parameters reach the cell as register_cell
    overrides of a trainer constructed with decoy defaults."""
    tally = Tally()
    spec = Cellspec(conn, *nio)
    hs = all_histories(T, spec.in_bits + spec.out_bits)
    B = len(hs)
    pre_bits = [[h[t][: spec.in_bits] for h in hs] for t in range(T)]
    post_bits = [[h[t][spec.in_bits:] for h in hs] for t in range(T)]
    pre_syn = torch.stack([spec.pre_syn(pre_bits[t]) for t in range(T)], 0)
    post = torch.stack([spec.post_ref(post_bits[t]) for t in range(T)], 0)
    # delay configurations: None (no delays), ("frozen"|"delayed", per-synapse steps)
    if delay_cfg is None:
        variants = [(None, None, None)]
    else:
        dmode, maxk = delay_cfg
        nfree = int(spec.mask().sum())
        variants = []
        for assign in itertools.product(range(maxk + 1), repeat=min(nfree, 4)):
            d = torch.zeros(spec.wshape)
            idx = spec.mask().nonzero()
            for p, k in zip(idx[: len(assign)], assign):
                d[tuple(p.tolist())] = k * dt
            variants.append((dmode, maxk * dt, d))
    for dmode, maxdelay, delays in variants:
        case = {"trainer": kind, "conn": conn, "io": list(nio), "T": T, "dt": dt, "sign": sign, "trace_mode": mode, "delayed_mode": dmode,
                "delays": None if delays is None else delays.tolist(), "signal": sigpat, "batch=histories": B, "per_cell_overrides": override}
        tally.add("evaluations")
        if kind == "mstdpet" and dmode == "delayed":
            continue  # MSTDPET has no delayed mode
        try:
            layer = spec.build(dt, B, maxdelay, delays)
            if override:
                trainer, ov = make_trainer_overridden(kind, sign, mode, dmode == "delayed", identity_reduction)
                trainer.register_cell("cell", layer.cell, **ov)
            else:
                trainer = make_trainer(kind, sign, mode, dmode == "delayed", identity_reduction)
                trainer.register_cell("cell", layer.cell)
        except Exception as ex:
            tally.violation(f"exception:register:{kind}:{type(ex).__name__}", case, repr(ex))
            continue
        gamma = 0.5
        sigs = [signal_for(t, B, sigpat) for t in range(T)]
        got = drive(tally, case, spec, dt, trainer, layer, pre_bits, post_bits, sigs, gamma, scalar_signal=True)
        if got is None:
            continue
        K = spec.delays_to_K(delays, dt)
        rp, rn = reference(kind, sign, mode, dt, pre_syn, post, K, torch.stack(sigs, 0), gamma)
        mask = spec.mask()
        for t in range(T):
            pos, neg = got[t]
            z = torch.zeros(B, *spec.wshape, dtype=F64)
            g = (z if pos is None else pos.to(F64)) - (z if neg is None else neg.to(F64))
            # the accumulator is cumulative until update(): compare cumulative sums
            exp = spec.to_weight_space((rp + rn)[: t + 1].sum(0))
            if g.shape != exp.shape:
                tally.violation(f"accumulator-shape:{kind}:{conn}", {**case, "step": t}, f"{tuple(g.shape)} vs {tuple(exp.shape)}")
                break
            diff = ((g - exp).abs() * mask).reshape(B, -1).amax(1)
            badi = (diff > 1e-5).nonzero().reshape(-1)
            if len(badi):
                b = int(badi[0])
                tally.violation(f"pair-sum:{kind}:{conn}:{sign}:{mode}:{dmode}{':overridden' if override else ''}", {**case, "step": t, "pre_history": [pre_bits[u][b] for u in range(t + 1)],
                                "post_history": [post_bits[u][b] for u in range(t + 1)]},
                                f"step {t}: accumulated pos-neg = {g[b].reshape(-1).tolist()}, pair-sum reference {exp[b].reshape(-1).tolist()} "
                                f"(pre {[pre_bits[u][b] for u in range(t + 1)]}, post {[post_bits[u][b] for u in range(t + 1)]})", exp[b].tolist(), g[b].tolist())
                break
            for nm, part in (("pos", pos), ("neg", neg)):
                if part is not None and bool((part < -1e-9).any()):
                    tally.violation(f"negative-part:{kind}:{nm}", {**case, "step": t}, f"{nm} part has negative entries")
                    break
            # routing: the potentiating part is exactly the sum of the positively signed terms, the depressing part the rest
            pos_ref = spec.to_weight_space((rp.clamp_min(0) + rn.clamp_min(0))[: t + 1].sum(0))
            neg_ref = spec.to_weight_space(-(rp.clamp_max(0) + rn.clamp_max(0))[: t + 1].sum(0))
            for nm, part, pref in (("pos", pos, pos_ref), ("neg", neg, neg_ref)):
                pv = z if part is None else part.to(F64)
                dd = ((pv - pref).abs() * mask).reshape(B, -1).amax(1)
                bi = (dd > 1e-5).nonzero().reshape(-1)
                if len(bi):
                    b = int(bi[0])
                    tally.violation(f"routing:{kind}:{sign}:{nm}", {**case, "step": t, "pre_history": [pre_bits[u][b] for u in range(t + 1)],
                                    "post_history": [post_bits[u][b] for u in range(t + 1)]},
                                    f"step {t}: {nm} part {pv[b].reshape(-1).tolist()} but the {'positively' if nm == 'pos' else 'negatively'} signed terms sum to "
                                    f"{pref[b].reshape(-1).tolist()}", pref[b].tolist(), pv[b].tolist())
                    break
        tally.mark("nontrivial", (kind, conn, nio, T, dt, sign, mode, dmode, None if delays is None else tuple(delays.reshape(-1).tolist()), sigpat, override))
    tally.add("histories", B * len(variants))
    tally.sample({"trainer": kind, "conn": conn, "T": T, "dt": dt, "sign": sign, "trace_mode": mode, "delay": delay_cfg, "histories_as_batch": B})
    return tally


def reduction_shard(kind, conn, nio, dt, sign, redname):
    """Part B: real batch reductions, B=2, all pairs of histories of length 2; weight after update()"""
    tally = Tally()
    spec = Cellspec(conn, *nio)
    T = 2
    hs = all_histories(T, spec.in_bits + spec.out_bits)
    red = {"mean": torch.mean, "sum": torch.sum, "default": None}[redname]
    gamma = 0.5
    for ha, hb in itertools.product(hs, hs):
        pair = [ha, hb]
        B = 2
        pre_bits = [[h[t][: spec.in_bits] for h in pair] for t in range(T)]
        post_bits = [[h[t][spec.in_bits:] for h in pair] for t in range(T)]
        for sigpat in (("alt", "pos") if kind in ("mstdp", "mstdpet") else ("pos",)):
            for scalar in ((False, True) if kind in ("mstdp", "mstdpet") and sigpat == "pos" else (False,)):
                case = {"trainer": kind, "conn": conn, "io": list(nio), "dt": dt, "sign": sign, "reduction": redname, "signal": sigpat,
                        "scalar_signal": scalar, "histories": pair}
                tally.add("evaluations")
                layer = spec.build(dt, B)
                trainer = make_trainer(kind, sign, "cumulative", False, red)
                trainer.register_cell("cell", layer.cell)
                w0 = layer.connection.weight.detach().clone().to(F64)
                pre_syn = torch.stack([spec.pre_syn(pre_bits[t]) for t in range(T)], 0)
                post = torch.stack([spec.post_ref(post_bits[t]) for t in range(T)], 0)
                sigs = [signal_for(t, B, sigpat) for t in range(T)]
                K = spec.delays_to_K(None, dt)
                rp, rn = reference(kind, sign, "cumulative", dt, pre_syn, post, K, torch.stack(sigs, 0), gamma)
                # effective reduction: STDP/triplet default mean; MSTDP/MSTDPET default sum
                eff = redname
                if redname == "default":
                    eff = "sum" if kind in ("mstdp", "mstdpet") else "mean"
                total = torch.zeros(spec.wshape, dtype=F64)
                ok = True
                for t in range(T):
                    try:
                        step_layer(layer, spec.pre_tensor(pre_bits[t]), spec.post_tensor(post_bits[t]))
                        if kind in ("mstdp", "mstdpet"):
                            trainer(float(sigs[t][0]) if scalar else sigs[t], gamma)
                        else:
                            trainer()
                        layer.connection.update()
                    except Exception as ex:
                        tally.violation(f"exception:{kind}:reduction:{type(ex).__name__}", {**case, "step": t}, repr(ex))
                        ok = False
                        break
                    c = spec.to_weight_space(rp[t] + rn[t])  # (B, *wshape)
                    if eff == "sum" or (kind in ("mstdp", "mstdpet") and not scalar and eff == "sum"):
                        step = c.sum(0)
                    else:
                        step = c.mean(0)
                    if kind in ("mstdp", "mstdpet") and not scalar and eff == "mean":
                        continue  # parts are reduced over sign-dependent subsets: not a plain mean (documented)
                    total = total + step
                    got = layer.connection.weight.detach().to(F64)
                    exp = (w0 + total) * spec.mask()
                    if not torch.allclose(got * spec.mask(), exp, rtol=1e-5, atol=1e-6):
                        tally.violation(f"weight-after-update:{kind}:{conn}:{eff}", {**case, "step": t},
                                        f"weight {got.reshape(-1).tolist()} != w0 + sum of reduced pair sums {exp.reshape(-1).tolist()}", exp.tolist(), got.tolist())
                        ok = False
                        break
                if ha != hb:
                    tally.mark("nontrivial", (kind, conn, nio, sign, redname, sigpat, scalar, tuple(map(tuple, ha)), tuple(map(tuple, hb))))
    tally.sample({"part": "reductions", "trainer": kind, "conn": conn, "reduction": redname})
    return tally


def applied_shard(kind, sign, T, delayed=False):
    """Part C: the update is applied (and the accumulator consumed) after *every* step, B=1 with the default reduction:
    all pre/post histories of length T x every reward sign sequence; the weight change of each step must equal that step's
    pair sum scaled by that step's own signal - nothing may survive in the accumulator from an earlier step."""
    tally = Tally()
    spec = Cellspec("dense", 1, 1)
    dt, gamma = 1.0, 0.5
    hs = all_histories(T, 2)
    three = kind in ("mstdp", "mstdpet")
    seqs = list(itertools.product((1.0, -1.0), repeat=T)) if three else [(1.0,) * T]
    K = None
    for h in hs:
        pre_bits = [[h[t][:1]] for t in range(T)]
        post_bits = [[h[t][1:]] for t in range(T)]
        pre_syn = torch.stack([spec.pre_syn(pre_bits[t]) for t in range(T)], 0)
        post = torch.stack([spec.post_ref(post_bits[t]) for t in range(T)], 0)
        for seq in seqs:
            case = {"trainer": kind, "sign": sign, "history": h, "signals": list(seq), "delayed": delayed, "update": "every step"}
            tally.add("evaluations")
            try:
                if delayed:
                    layer = spec.build(dt, 1, 1.0 * dt, torch.full(spec.wshape, 1.0 * dt))
                else:
                    layer = spec.build(dt, 1)
                trainer = make_trainer(kind, sign, "cumulative", delayed, None)
                trainer.register_cell("cell", layer.cell)
            except Exception as ex:
                tally.violation(f"exception:register:{kind}:{type(ex).__name__}", case, repr(ex))
                continue
            Kd = spec.delays_to_K(torch.full(spec.wshape, 1.0 * dt) if delayed else None, dt)
            sig = torch.tensor(seq, dtype=F64).reshape(T, 1)
            rp, rn = reference(kind, sign, "cumulative", dt, pre_syn, post, Kd, sig, gamma)
            w = layer.connection.weight.detach().clone().to(F64)
            for t in range(T):
                try:
                    step_layer(layer, spec.pre_tensor(pre_bits[t]), spec.post_tensor(post_bits[t]))
                    if three:
                        trainer(float(seq[t]), gamma)
                    else:
                        trainer()
                    layer.connection.update()
                except Exception as ex:
                    tally.violation(f"exception:{kind}:applied:{type(ex).__name__}", {**case, "step": t}, repr(ex))
                    break
                got = layer.connection.weight.detach().to(F64) - w
                exp = spec.to_weight_space(rp[t] + rn[t])[0]
                if not torch.allclose(got, exp, rtol=1e-5, atol=1e-6):
                    tally.violation(f"applied-step:{kind}:{sign}{':delayed' if delayed else ''}", {**case, "step": t},
                                    f"step {t} (signal {seq[t]}): applied change {got.reshape(-1).tolist()} != that step's signed pair sum "
                                    f"{exp.reshape(-1).tolist()}", exp.tolist(), got.tolist())
                    break
                w = layer.connection.weight.detach().clone().to(F64)
            if any(a and b for a, b in [(h[t][0], h[t][1]) for t in range(T)]) or len(set(seq)) > 1:
                tally.mark("nontrivial", ("applied", kind, sign, delayed, tuple(map(tuple, h)), seq))
    tally.add("histories", len(hs) * len(seqs))
    tally.sample({"part": "applied every step", "trainer": kind, "sign": sign, "T": T, "reward sequences": len(seqs)})
    return tally


def reuse_shard(kind, sign, mode, delay_cfg, keepshape, between="clear"):
    """Part D: one cell re-used across histories. Every ordered pair (A, B) of histories of length 2 rides the batch: A is run,
    then layer.clear(), trainer.clear(keepshape=...), updater.clear(), then B - the parts accumulated during B must equal the pair
    sums of B alone (nothing of A may survive in traces, event times or the synapse's delay history)."""
    # between = "eval-burnin": instead of clearing, the trainer is put in eval mode BEFORE the cell is registered, history A only
    # drives the layer (no recording may happen), then trainer.train() and history B is trained on: again B alone counts
    tally = Tally()
    spec = Cellspec("dense", 1, 1)
    dt, T, gamma = 1.0, 2, 0.5
    hs1 = all_histories(T, 2)
    pairs = list(itertools.product(hs1, hs1))
    B = len(pairs)
    three = kind in ("mstdp", "mstdpet")
    if delay_cfg is None:
        variants = [(None, None, None)]
    else:
        dmode, k = delay_cfg
        variants = [(dmode, 2 * dt, torch.full(spec.wshape, k * dt))]
    for dmode, maxdelay, delays in variants:
        case = {"trainer": kind, "sign": sign, "trace_mode": mode, "delayed_mode": dmode, "delays": None if delays is None else delays.tolist(),
                "keepshape": keepshape, "part": "cell re-used after clear" if between == "clear" else "registered in eval mode, burn-in, then train()", "batch=pairs": B}
        tally.add("evaluations")
        if kind == "mstdpet" and dmode == "delayed":
            continue
        try:
            layer = spec.build(dt, B, maxdelay, delays)
            trainer = make_trainer(kind, sign, mode, dmode == "delayed", identity_reduction)
            if between == "eval-burnin":
                trainer.eval()
            trainer.register_cell("cell", layer.cell)
            for phase in (0, 1):
                for t in range(T):
                    pre = [[p[phase][t][0]] for p in pairs]
                    pst = [[p[phase][t][1]] for p in pairs]
                    step_layer(layer, spec.pre_tensor(pre), spec.post_tensor(pst))
                    if between == "eval-burnin" and phase == 0:
                        continue
                    if three:
                        trainer(float(signal_for(t, 1, "stepalt")[0]), gamma)
                    else:
                        trainer()
                if phase == 0:
                    if between == "eval-burnin":
                        trainer.train()
                    else:
                        layer.clear()
                        trainer.clear(keepshape=keepshape)
                        layer.connection.updater.clear()
        except Exception as ex:
            tally.violation(f"exception:reuse:{kind}:{dmode}:{type(ex).__name__}", case, f"{type(ex).__name__}: {ex}", None, repr(ex))
            continue
        preB = torch.stack([spec.pre_syn([[p[1][t][0]] for p in pairs]) for t in range(T)], 0)
        postB = torch.stack([spec.post_ref([[p[1][t][1]] for p in pairs]) for t in range(T)], 0)
        sigs = torch.stack([signal_for(t, B, "stepalt") for t in range(T)], 0)
        rp, rn = reference(kind, sign, mode, dt, preB, postB, spec.delays_to_K(delays, dt), sigs, gamma)
        exp = spec.to_weight_space((rp + rn).sum(0))
        acc = layer.connection.updater.weight
        z = torch.zeros(B, *spec.wshape, dtype=F64)
        got = (z if acc.pos is None else acc.pos.to(F64)) - (z if acc.neg is None else acc.neg.to(F64))
        diff = (got - exp).abs().reshape(B, -1).amax(1)
        bi = (diff > 1e-5).nonzero().reshape(-1)
        if len(bi):
            b = int(bi[0])
            tally.violation((f"reuse-after-clear:{kind}:{mode}:{dmode}:keepshape={keepshape}" if between == "clear" else f"trained-on-eval-burnin:{kind}:{mode}"), {**case, "history_before_clear": pairs[b][0], "history_after_clear": pairs[b][1]},
                            f"after history {pairs[b][0]} and clear(), history {pairs[b][1]} accumulated {got[b].reshape(-1).tolist()} but alone it gives "
                            f"{exp[b].reshape(-1).tolist()}", exp[b].tolist(), got[b].tolist())
        tally.mark("nontrivial", ("reuse", kind, sign, mode, dmode, keepshape, between))
    tally.add("histories", B)
    tally.sample({"part": "re-use after clear", "trainer": kind, "pairs_as_batch": B})
    return tally


def shared_neuron_shard(kind, mode, T):
    """one trainer, TWO cells of one Biclique layer that end on the same neuron group; the second cell overrides lr_pre (twice the
    default) - equal post-side hyper-parameters, different pre-side ones. Every history of (pre_a, pre_b, post) rides the batch: each
    connection's accumulated change equals its own cell's pair sums (a monitor pooled across the two cells may only be shared if it
    really computes the same thing for both)."""
    from inferno.neural import Biclique, LinearDense, DeltaCurrent
    from inferno.extra import ExactNeuron
    tally = Tally()
    dt, gamma = 1.0, 0.5
    hs = all_histories(T, 3)
    B = len(hs)
    three = kind in ("mstdp", "mstdpet")
    case = {"trainer": kind, "trace_mode": mode, "part": "two cells sharing a neuron group, lr_pre overridden on the second", "T": T, "batch=histories": B}
    tally.add("evaluations")
    spec = Cellspec("dense", 1, 1)
    sp, sn = SIGNS["hebbian"]
    try:
        def conn():
            c = LinearDense((1,), (1,), dt, synapse=DeltaCurrent.partialconstructor(spike_charge=dt), batch_size=B, weight_init=lambda w: torch.full_like(w, 0.5))
            c.updater = c.defaultupdater()
            return c
        layer = Biclique([("a", conn()), ("b", conn())], [("x", ExactNeuron((1,), dt, rest_v=-60.0, thresh_v=-45.0, batch_size=B))])
        tr = make_trainer(kind, "hebbian", mode, False, identity_reduction)
        key = "lr_pre_pair" if kind == "triplet" else "lr_pre"
        tr.register_cell("a", layer.get_cell("a", "x"))
        # (the triplet pre-side term is not linear in lr_pre_pair alone, so its second cell keeps the defaults: both cells then share
        # every post-side monitor, slow traces included, and each is compared with the full rule)
        tr.register_cell("b", layer.get_cell("b", "x"), **({} if kind == "triplet" else {key: 2 * sn * LRN}))
        for t in range(T):
            xa = torch.tensor([[h[t][0]] for h in hs], dtype=torch.bool)
            xb = torch.tensor([[h[t][1]] for h in hs], dtype=torch.bool)
            y = torch.tensor([[h[t][2]] for h in hs], dtype=torch.bool)
            layer({"a": (xa,), "b": (xb,)}, neuron_kwargs={"x": {"override": y}})
            if three:
                tr(float(signal_for(t, 1, "stepalt")[0]), gamma)
            else:
                tr()
    except Exception as ex:
        tally.violation(f"exception:shared-neuron:{kind}:{type(ex).__name__}", case, f"{type(ex).__name__}: {ex}", None, repr(ex))
        return tally
    post = torch.stack([spec.post_ref([[h[t][2]] for h in hs]) for t in range(T)], 0)
    sigs = torch.stack([signal_for(t, B, "stepalt") for t in range(T)], 0)
    for ci, (cname, scale_pre) in enumerate((("a", 1.0), ("b", 1.0 if kind == "triplet" else 2.0))):
        pre_syn = torch.stack([spec.pre_syn([[h[t][ci]] for h in hs]) for t in range(T)], 0)
        rp, rn = reference(kind, "hebbian", mode, dt, pre_syn, post, spec.delays_to_K(None, dt), sigs, gamma)
        exp = spec.to_weight_space((rp + scale_pre * rn).sum(0))
        acc = layer.get_connection(cname).updater.weight
        z = torch.zeros(B, *spec.wshape, dtype=F64)
        got = (z if acc.pos is None else acc.pos.to(F64)) - (z if acc.neg is None else acc.neg.to(F64))
        diff = (got - exp).abs().reshape(B, -1).amax(1)
        bi = (diff > 1e-5).nonzero().reshape(-1)
        if len(bi):
            b = int(bi[0])
            tally.violation(f"shared-neuron:{kind}:{mode}:cell-{cname}", {**case, "history(pre_a,pre_b,post)": hs[b]},
                            f"cell '{cname}' (lr_pre x{scale_pre}) accumulated {got[b].reshape(-1).tolist()} but its own rule gives {exp[b].reshape(-1).tolist()}",
                            exp[b].tolist(), got[b].tolist())
    tally.mark("nontrivial", ("shared-neuron", kind, mode, T))
    tally.add("histories", B)
    return tally


def multicell_shard(kind, sign, T):
    """one trainer, TWO cells (two layers) with different histories; for the three-factor rules a per-sample signal TENSOR
    (batch of one) with scale != 1: every cell's update equals its own single-cell reference"""
    tally = Tally()
    spec = Cellspec("dense", 1, 1)
    dt = 1.0
    hs = all_histories(T, 2)
    three = kind in ("mstdp", "mstdpet")
    gamma = 0.5
    for h in hs:
        hists = [h, [tuple(1 - v for v in letter) for letter in h][::-1]]
        case = {"trainer": kind, "sign": sign, "part": "two cells on one trainer", "histories": hists, "signal": "tensor" if three else None, "scale": gamma}
        tally.add("evaluations")
        layers = [spec.build(dt, 1) for _ in range(2)]
        tr = make_trainer(kind, sign, "cumulative", False, None)
        for i, L_ in enumerate(layers):
            tr.register_cell(f"c{i}", L_.cell)
        sigs = [torch.tensor([(-0.5 if u % 2 else 1.0)]) for u in range(T)]
        ok = True
        for t in range(T):
            for i, L_ in enumerate(layers):
                step_layer(L_, spec.pre_tensor([hists[i][t][:1]]), spec.post_tensor([hists[i][t][1:]]))
            try:
                if three:
                    tr(sigs[t], gamma)
                else:
                    tr()
            except Exception as ex:
                tally.violation(f"exception:multicell:{kind}:{type(ex).__name__}", {**case, "step": t}, repr(ex))
                break
            for i, L_ in enumerate(layers):
                pre_syn = torch.stack([spec.pre_syn([hists[i][u][:1]]) for u in range(t + 1)], 0)
                post = torch.stack([spec.post_ref([hists[i][u][1:]]) for u in range(t + 1)], 0)
                rp, rn = reference(kind, sign, "cumulative", dt, pre_syn, post, spec.delays_to_K(None, dt), torch.stack(sigs[: t + 1], 0), gamma)
                acc = L_.connection.updater.weight
                z = torch.zeros(spec.wshape, dtype=F64)
                got = (z if acc.pos is None else acc.pos.to(F64)) - (z if acc.neg is None else acc.neg.to(F64))
                exp = (rp + rn).sum(0)[0]
                if not torch.allclose(got, exp, atol=1e-5):
                    tally.violation(f"multicell:{kind}:cell{i}", {**case, "step": t, "cell": i}, f"cell {i} accumulated {got.reshape(-1).tolist()} but its own history gives "
                                    f"{exp.reshape(-1).tolist()}", exp.tolist(), got.tolist())
                    ok = False
            if not ok:
                break
        tally.mark("nontrivial", ("multicell", kind, sign, tuple(map(tuple, h))))
    tally.sample({"part": "multicell", "trainer": kind, "sign": sign, "T": T})
    return tally


def run(rep):
    quick = rep.tier == "quick"
    jobs = []
    T1 = 4 if quick else 6
    for kind in ("stdp", "mstdp", "mstdpet", "triplet"):
        for sign in (tuple(SIGNS) if kind in ("mstdp", "mstdpet") else ("hebbian", "dep")):
            jobs.append((multicell_shard, (kind, sign, 3 if quick else 4)))
    T2 = 2 if quick else 3
    for kind in ("stdp", "mstdp", "mstdpet", "triplet"):
        for sign in SIGNS:
            for mode in ("cumulative", "nearest"):
                for dt in (1.0, 0.5):
                    # a per-sample signal tensor regroups samples by sign before the reduction (documented), so the
                    # histories-as-batch runs use a scalar signal that changes over the steps; per-sample tensors are in Part B
                    sigpats = ("stepalt",) if kind in ("mstdp", "mstdpet") else ("pos",)
                    for sp in sigpats:
                        # 1x1 dense: all histories of length T1
                        jobs.append((history_shard, (kind, "dense", (1, 1), T1, dt, sign, mode, None, sp)))
                        if not (quick and dt == 0.5 and mode == "nearest"):
                            for dmode in ("frozen", "delayed"):
                                jobs.append((history_shard, (kind, "dense", (1, 1), T1, dt, sign, mode, (dmode, 2), sp)))
        # hyper-parameters given as per-cell overrides of a trainer with decoy defaults
        for sign in SIGNS:  # (a learning rate of exactly 0 is not a legal value here: the trace amplitude must be non-zero)
            for mode in ("cumulative", "nearest"):
                sp = "stepalt" if kind in ("mstdp", "mstdpet") else "pos"
                jobs.append((history_shard, (kind, "dense", (1, 1), T1, 1.0, sign, mode, None, sp, True)))
                jobs.append((history_shard, (kind, "dense", (1, 1), T1 - 1, 1.0, sign, mode, ("delayed", 1), sp, True)))
        # index / transposition faults: 2x2 and friends, all histories of length T2 (hebbian + dep, cumulative)
        for conn, nio in (("dense", (2, 2)), ("direct", (2, 2)), ("lateral", (2, 2)), ("conv", (1, 1)), ("conv2c", (1, 1)), ("densemd", (2, 2)), ("dense", (2, 1)), ("dense", (1, 2))):
            for sign in ("hebbian", "anti"):
                sp = "stepalt" if kind in ("mstdp", "mstdpet") else "pos"
                jobs.append((history_shard, (kind, conn, nio, T2, 1.0, sign, "cumulative", None, sp)))
                if conn in ("dense", "densemd", "lateral", "conv", "conv2c") and nio in ((2, 2), (1, 1)):
                    jobs.append((history_shard, (kind, conn, nio, T2, 1.0, sign, "cumulative", ("delayed", 1), sp)))
                    jobs.append((history_shard, (kind, conn, nio, T2, 1.0, sign, "nearest", ("frozen", 1), sp)))
        for sign in SIGNS:
            jobs.append((applied_shard, (kind, sign, 3 if quick else 4)))
            if kind in ("stdp", "mstdp"):
                jobs.append((applied_shard, (kind, sign, 3 if quick else 4, True)))
        for mode in ("cumulative", "nearest"):
            jobs.append((shared_neuron_shard, (kind, mode, 3)))
        for mode in ("cumulative", "nearest"):
            for dcfg in (None, ("frozen", 1), ("frozen", 2), ("delayed", 1), ("delayed", 2)):
                for keepshape in (False, True):
                    jobs.append((reuse_shard, (kind, "hebbian", mode, dcfg, keepshape)))
            jobs.append((reuse_shard, (kind, "hebbian", mode, None, False, "eval-burnin")))
        for redname in ("default", "sum", "mean"):
            # the per-sample signal path routes every (sample, term) by lr sign x signal sign: all four sign modes there
            for sign in (tuple(SIGNS) if (kind in ("mstdp", "mstdpet") and redname != "mean") else ("hebbian", "dep")):
                jobs.append((reduction_shard, (kind, "dense", (1, 1), 1.0, sign, redname)))
    tally = run_shards(jobs, seed=rep.seed)
    rep.tally.merge(tally)
    c = tally.counts
    rep.assumptions += [
        "postsynaptic spikes are overridden through ExactNeuron, so every pre/post history is reachable; histories ride the batch "
        "dimension with an identity batch reduction (per-history parts), real reductions are exercised on B=2 for all pairs of length-2 histories",
        "delays are multiples of the step time (0..2 steps); float comparison 1e-5",
        "the property's 'randomly for larger populations' is replaced by exhaustive 2x2 / direct-2 / lateral-2 / conv cells",
        "per-sample signals with a mean reduction reduce sign-dependent subsets (documented) and are not compared to a plain mean",
    ]
    cov = {
        "states": c.get("histories", 0) * T1,
        "transitions": c.get("histories", 0) * T1,
        "traces_validated_against_impl": c.get("histories", 0),
        "configurations": len(jobs),
        "exhaustive": True,
        "history_length": {"1x1": T1, "2x2/direct/lateral/conv": T2, "reductions": 2},
        "evaluations": c.get("evaluations", 0),
        "distinct_nontrivial": len(tally.sets.get("nontrivial", ())),
        "rule": "all pre/post histories of the stated lengths (as batch) x trainer x sign mode x trace mode x dt x delay mode x every per-synapse "
                "delay assignment; plus all pairs of length-2 histories x reductions x signal kinds; non-trivial = distinct configurations / history pairs",
    }
    return rep.finish(cov, floors={"traces_validated_against_impl": 20000, "evaluations": 2000})


def replay(case):
    return {"violations": [], "note": "configuration and the failing pre/post history are in the record (see message)"}
