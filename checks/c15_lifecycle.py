"""C15 - trainer / monitor lifecycle: one observation per training step, cells isolated (E1).

World: a Biclique layer with connections a, b into one neuron group x (cells (a,x) and (b,x) share the
postsynaptic population, hence pooled monitors) and up to two trainers. Events: register_cell, del_cell,
add/del of a custom monitor (pooled or unique), trainer train/eval, layer train/eval, layer step,
trainer step, trainer clear, drop-last-reference-and-collect.

Oracles per transition
  * absolute: every monitor of every registered cell records exactly one observation per layer step iff
    its trainer and the layer are training (observations counted by forward hooks on the reducers);
    no event changes any other count; listings equal the registry; live hook handles on the layer equal
    the number of armed monitors; a trainer step succeeds whenever every monitor has data.
  * differential: the data of trainer i's monitors equals, after every event, the data in a world where
    only trainer i's (and the layer's) events happened - events on the other trainer never stop, reset,
    redirect or corrupt recording.
"""

from __future__ import annotations

import gc
import itertools

import torch

import inferno
from inferno.extra import ExactNeuron
from inferno.functional import exp_stdp_post_kernel, exp_stdp_pre_kernel
from inferno.learn import STDP, MSTDPET, KernelSTDP
from inferno.neural import LinearDense, DeltaCurrent, Biclique
from inferno.observe import StateMonitor, PassthroughReducer

from mc.common import Tally
from mc.explore import explore
from mc.pool import run_shards

ID = "C15"
LEVEL = "model_checking"
DT = 1.0
CELLS = ("a", "b")


def make_trainer(kind, idx):
    lr = 0.5 if idx == 0 else 0.125  # different amplitudes: a redirected trace is visible in the data
    if kind == "stdp":
        return STDP(lr, -lr / 2, 4.0, 2.0)
    if kind == "mstdpet":
        return MSTDPET(lr, -lr / 2, 4.0, 2.0, 3.0)
    if kind == "homeo":  # a rule with exactly ONE monitor per cell (a cell with a custom monitor then has exactly two)
        from inferno.learn import LinearHomeostasis
        return LinearHomeostasis(lr / 2, 0.5, "weight")
    if kind == "kernel":
        return KernelSTDP(exp_stdp_post_kernel, exp_stdp_pre_kernel, dict(learning_rate=lr, time_constant=4.0), dict(learning_rate=-lr / 2, time_constant=2.0))
    raise ValueError(kind)


class World:
    """real objects + instrumentation"""

    def __init__(self, kinds):
        def conn():
            c = LinearDense((2,), (2,), DT, synapse=DeltaCurrent.partialconstructor(DT), batch_size=1, weight_init=lambda w: torch.full_like(w, 0.5))
            c.updater = c.defaultupdater()
            return c

        self.layer = Biclique([("a", conn()), ("b", conn())], [("x", ExactNeuron((2,), DT, rest_v=-60.0, thresh_v=-45.0, batch_size=1))])
        self.trainers = [make_trainer(k, i) for i, k in enumerate(kinds)]
        self.kinds = kinds
        self.counts = {}  # id(reducer) -> observations
        self.hooked = {}  # id(reducer) -> (reducer weak marker)
        self.nsteps = 0

    def instrument(self):
        for tr in self.trainers:
            if tr is None:
                continue
            for c in CELLS:
                for name, mon in tr.named_monitors_of(c):
                    red = mon.reducer
                    if id(red) not in self.hooked:
                        self.counts[id(red)] = 0

                        def hook(module, args, output, key=id(red), counts=self.counts):
                            counts[key] += 1

                        red.register_forward_hook(hook)
                        self.hooked[id(red)] = red  # keep alive so ids stay unique

    def step(self):
        n = self.nsteps
        xa = torch.tensor([[1, n % 2]], dtype=torch.bool)
        xb = torch.tensor([[(n + 1) % 2, 1]], dtype=torch.bool)
        y = torch.tensor([[1, (n // 2) % 2]], dtype=torch.bool)
        self.layer({"a": (xa,), "b": (xb,)}, neuron_kwargs={"x": {"override": y}})
        self.nsteps += 1

    def layer_hooks(self):
        return len(self.layer._forward_hooks) + len(self.layer._forward_pre_hooks)


class Model:
    """registry + mode bits (the reference model)"""

    def __init__(self):
        self.alive = [True, True]
        self.training = [True, True]
        self.ltrain = True
        self.cells = [dict(), dict()]  # trainer -> cell name -> extra kind or None
        self.data = [dict(), dict()]  # trainer -> cell -> number of observations since registration/clear
        # hidden history the registry cannot show: the trainer's monitors went through a deregister/register cycle
        # (trainer.eval() then trainer.train() with cells registered) - handles and finalizers are then second-generation
        self.recycled = [0, 0]


def extra_ctor():
    return StateMonitor.partialconstructor(reducer=PassthroughReducer(DT, duration=0.0, inclusive=True), as_prehook=False,
                                           train_update=True, eval_update=False, prepend=True)


class St:
    pass


class LifecycleSystem:
    def __init__(self, kinds, ntrainers, with_extra):
        self.kinds, self.nt, self.with_extra = kinds, ntrainers, with_extra
        self.config = {"trainers": list(kinds[:ntrainers]), "custom_monitors": with_extra}
        self.solo_cache = {}

    def build(self, history, only=None):
        st = St()
        st.w = World(self.kinds[: self.nt])
        st.m = Model()
        st.only = only
        for i in range(self.nt, 2):
            st.m.alive[i] = False
        for op in history:
            self.step(st, op, check=False)
        return st

    def queries(self, st):
        return ()

    def mutations(self, st):
        m = st.m
        yield ("step",)
        yield ("ltrain",)
        yield ("leval",)
        for i in range(self.nt):
            if not m.alive[i]:
                continue
            for c in CELLS:
                if c not in m.cells[i]:
                    yield ("reg", i, c)
                else:
                    yield ("delcell", i, c)
                    yield ("rereg", i, c)  # a registration under a name in use is refused (ValueError) and must leave no trace
                    if self.with_extra:
                        if m.cells[i][c] is None:
                            yield ("addmon", i, c, "pooled")
                            yield ("addmon", i, c, "unique")
                        else:
                            yield ("delmon", i, c)
                            if m.cells[i][c] == "pooled":
                                # replace a (possibly shared) pooled monitor by a unique one of the same name
                                yield ("addmon", i, c, "unique")
            yield ("train", i)
            yield ("eval", i)
            yield ("clear", i)
            if m.cells[i] and all(m.data[i].get(c, 0) > 0 for c in m.cells[i]):
                yield ("call", i)
            yield ("drop", i)

    # ------------------------------------------------------------------
    def monitors_of(self, st, i):
        """distinct monitor objects of trainer i reachable through its registered cells"""
        tr = st.w.trainers[i]
        seen, out = set(), []
        for c in sorted(st.m.cells[i]):
            for name, mon in tr.named_monitors_of(c):
                if id(mon) not in seen:
                    seen.add(id(mon))
                    out.append((c, name, mon))
        return out

    def snapshot_counts(self, st):
        snap = {}
        for i in range(self.nt):
            if st.m.alive[i]:
                for c, name, mon in self.monitors_of(st, i):
                    snap[(i, c, name)] = st.w.counts.get(id(mon.reducer), 0)
        return snap

    def data_of(self, st, i):
        """observable data of trainer i's monitors (what its next update would be computed from)"""
        out = {}
        if not st.m.alive[i]:
            return out
        tr = st.w.trainers[i]
        for c in sorted(st.m.cells[i]):
            for name, mon in tr.named_monitors_of(c):
                v = mon.peek()
                out[(c, name)] = None if v is None else v.detach().clone()
        return out

    def step(self, st, op, check=True):
        w, m = st.w, st.m
        name = op[0]
        if st.only is not None and len(op) > 1 and isinstance(op[1], int) and op[1] != st.only:
            return []  # projected world: events of the other trainer do not happen
        bad = []
        if check:
            w.instrument()
            before = self.snapshot_counts(st)
        raised = None
        i = op[1] if len(op) > 1 and isinstance(op[1], int) else None
        tr = w.trainers[i] if i is not None else None
        try:
            if name == "step":
                w.step()
                for j in range(self.nt):
                    if m.alive[j] and m.training[j] and m.ltrain:
                        for c in m.cells[j]:
                            m.data[j][c] = m.data[j].get(c, 0) + 1
            elif name == "ltrain":
                w.layer.train()
                m.ltrain = True
            elif name == "leval":
                w.layer.eval()
                m.ltrain = False
            elif name == "reg":
                tr.register_cell(op[2], w.layer.get_cell(op[2], "x"))
                m.cells[i][op[2]] = None
                m.data[i][op[2]] = 0
            elif name == "rereg":
                try:
                    tr.register_cell(op[2], w.layer.get_cell(op[2], "x"))
                except ValueError:
                    pass
            elif name == "delcell":
                tr.del_cell(op[2])
                del m.cells[i][op[2]]
                m.data[i].pop(op[2], None)
            elif name == "addmon":
                tr.add_monitor(op[2], "extra", "neuron.spike", extra_ctor(), op[3] == "unique", tag="extra")
                m.cells[i][op[2]] = op[3]
            elif name == "delmon":
                tr.del_monitor(op[2], "extra")
                m.cells[i][op[2]] = None
            elif name == "train":
                tr.train()
                if not m.training[i] and m.cells[i]:
                    m.recycled[i] = 1
                m.training[i] = True
            elif name == "eval":
                tr.eval()
                m.training[i] = False
            elif name == "clear":
                tr.clear()
                for c in m.data[i]:
                    m.data[i][c] = 0
            elif name == "call":
                if self.kinds[i] == "mstdpet":
                    tr(1.0)
                else:
                    tr()
                if check and m.training[i] and m.ltrain:
                    for c in m.cells[i]:
                        acc = w.layer.get_connection(c).updater.weight
                        if acc.pos is None and acc.neg is None:
                            bad.append((f"call-left-accumulator-empty:{self.kinds[i]}", f"{op}: trainer step on registered cell '{c}' accumulated nothing", None, None))
                for c in CELLS:
                    w.layer.get_connection(c).updater.clear()
            elif name == "drop":
                w.trainers[i] = None
                tr = None
                gc.collect()
                m.alive[i] = False
                m.cells[i] = {}
                m.data[i] = {}
        except Exception as ex:
            raised = ex
        if raised is not None:
            if not check:
                raise raised
            from mc.common import slug
            who = self.kinds[i] if i is not None else "layer[" + "+".join(sorted(self.kinds[: self.nt])) + "]"
            return [(f"exception:{name}:{who}:{type(raised).__name__}:{slug(str(raised), 40)}", f"{op} raised {type(raised).__name__}: {raised}", None, repr(raised))]
        if not check:
            return bad
        w.instrument()
        after = self.snapshot_counts(st)
        # ---- absolute oracle: observation deltas
        for key, a in after.items():
            j = key[0]
            b = before.get(key)
            if b is None:
                continue
            exp = 1 if (name == "step" and m.training[j] and m.ltrain) else 0
            if a - b != exp:
                what = "missed-observation" if a - b < exp else "extra-observation"
                bad.append((f"{what}:{name}:{self.kinds[j]}:{key[2]}", f"{op}: monitor '{key[2]}' of cell '{key[1]}' (trainer {j}) recorded {a - b} "
                            f"observation(s), expected {exp} (trainer training={m.training[j]}, layer training={m.ltrain})", exp, a - b))
        # ---- listings reflect the registry
        for j in range(self.nt):
            if not m.alive[j]:
                continue
            trj = w.trainers[j]
            try:
                cells = sorted(n for n, _ in trj.named_cells)
                named = sorted((c, n) for (c, n), _ in trj.named_monitors)
                mons = list(trj.monitors)
            except Exception as ex:
                bad.append((f"listing-raised:{type(ex).__name__}", f"after {op}: trainer listings raised {type(ex).__name__}: {ex}", None, repr(ex)))
                continue
            if cells != sorted(m.cells[j]):
                bad.append((f"cells-listing:{self.kinds[j]}", f"after {op}: named_cells lists {cells}, registry {sorted(m.cells[j])}", sorted(m.cells[j]), cells))
            expnamed = sorted((c, n) for c in m.cells[j] for n, _ in trj.named_monitors_of(c))
            if named != expnamed:
                bad.append((f"named-monitors-listing:{self.kinds[j]}", f"after {op}: named_monitors {named} vs per-cell listing {expnamed}", expnamed, named))
            if any((c not in m.cells[j]) for c, _ in named):
                bad.append((f"monitors-of-unregistered-cell:{self.kinds[j]}", f"after {op}: monitors listed for a cell that is not registered", None, named))
            distinct = {id(mm) for _, _, mm in self.monitors_of(st, j)}
            # pooled monitors are listed once ("duplicate monitors are not created": the listing is of distinct objects)
            if {id(x) for x in mons} != distinct or len(mons) != len(distinct):
                bad.append((f"monitors-listing:{self.kinds[j]}", f"after {op}: monitors lists {len(mons)} objects, registry has {len(distinct)} distinct", len(distinct), len(mons)))
            extras = {c: ("extra" in dict(trj.named_monitors_of(c))) for c in m.cells[j]}
            for c, has in extras.items():
                if has != (m.cells[j][c] is not None):
                    bad.append((f"extra-monitor-presence:{self.kinds[j]}", f"after {op}: custom monitor on '{c}' present={has}, registry {m.cells[j][c]}", None, None))
        # ---- live handles on the layer == armed monitors
        exp_hooks = 0
        for j in range(self.nt):
            if m.alive[j] and m.training[j]:
                for _, _, mm in self.monitors_of(st, j):
                    exp_hooks += 1
        got_hooks = w.layer_hooks()
        if got_hooks != exp_hooks:
            bad.append((f"layer-hooks:{name}", f"after {op}: {got_hooks} monitor hooks on the layer, expected {exp_hooks} (one per armed monitor)", exp_hooks, got_hooks))
        return bad

    def canon(self, st):
        w, m = st.w, st.m
        per = []
        for i in range(self.nt):
            if not m.alive[i]:
                per.append(("dead",))
                continue
            cells = tuple(sorted((c, k, min(m.data[i].get(c, 0), 2)) for c, k in m.cells[i].items()))
            # aliasing structure of monitor objects across the trainer's cells
            ids = {}
            alias = []
            for c in sorted(m.cells[i]):
                for n, mon in sorted(w.trainers[i].named_monitors_of(c), key=lambda x: x[0]):
                    alias.append((c, n, ids.setdefault(id(mon), len(ids)), bool(mon.registered)))
            per.append((m.training[i], cells, tuple(alias), m.recycled[i]))
        # which trainer owns each cell-side monitor name (the map MSTDPET's eligibility monitors read through)
        owners = []
        for c in CELLS:
            cell = w.layer.get_cell(c, "x")
            row = []
            for n in sorted(cell.monitors):
                mon = cell.monitors[n]
                own = -1
                for i in range(self.nt):
                    if m.alive[i] and any(mon is mm for _, _, mm in self.monitors_of(st, i)):
                        own = i
                row.append((n, own))
            owners.append(tuple(row))
        return (m.ltrain, tuple(per), tuple(owners), w.layer_hooks())

    # ---- differential oracle -------------------------------------------------------
    # observe the shared postsynaptic population and are legitimately pooled across cells (elig_pre filters the pooled
    # postsynaptic trace, so it inherits whatever that monitor recorded before the cell joined)
    SHARED_NAMES = ("trace_post", "spike_post", "elig_pre", "spike_rate")

    def differential(self, st, history, tally):
        """(1) the data of trainer i's monitors equals the data in the world where the other trainer's events never happened;
        (2) the data of the cell-specific monitors of (trainer i, cell c) - those observing the cell's own connection, its
        eligibility monitors, unique custom monitors - equals the data in the world where trainer i's other cells were never
        registered. Monitors on the shared postsynaptic population are legitimately pooled across cells (they may hold data
        from before a cell joined) and are only compared in (1)."""
        out = []
        for i in range(self.nt):
            if not st.m.alive[i]:
                continue
            got = None
            for level, cells in (("trainer", [None]), ("cell", sorted(st.m.cells[i]))):
                for c in cells:
                    def keep(op):
                        if len(op) > 1 and isinstance(op[1], int):
                            if op[1] != i:
                                return False
                            if c is not None and op[0] in ("reg", "delcell", "addmon", "delmon") and op[2] != c:
                                return False
                        return True

                    proj = tuple(op for op in history if keep(op))
                    if len(proj) == len(history):
                        continue
                    key = (i, c, proj)
                    if key not in self.solo_cache:
                        try:
                            solo = self.build(list(proj), only=None)
                            self.solo_cache[key] = self.data_of(solo, i)
                        except Exception as ex:
                            self.solo_cache[key] = ("raised", repr(ex))
                    ref = self.solo_cache[key]
                    if isinstance(ref, tuple) and ref and ref[0] == "raised":
                        continue
                    if got is None:
                        got = self.data_of(st, i)
                    for k in ref:
                        if c is not None:
                            if k[0] != c or k[1] in self.SHARED_NAMES or (k[1] == "extra" and st.m.cells[i].get(c) != "unique"):
                                continue
                        a, b = got.get(k, "missing"), ref[k]
                        same = (a is None and b is None) or (isinstance(a, torch.Tensor) and isinstance(b, torch.Tensor) and a.shape == b.shape and torch.allclose(a, b, equal_nan=True))
                        if not same:
                            other = self.kinds[1 - i] if (self.nt == 2 and level == "trainer") else "other-cell"
                            out.append((f"interference:{self.kinds[i]}<-{other}:{k[1]}",
                                        f"monitor '{k[1]}' of cell '{k[0]}' (trainer {i}, {self.kinds[i]}) holds "
                                        f"{None if not isinstance(a, torch.Tensor) else a.reshape(-1).tolist()} but {None if b is None else b.reshape(-1).tolist()} "
                                        f"when the events of {'the other trainer' if level == 'trainer' else 'the same trainer on its other cell'} are left out", None, None))
                            return out
        return out


def lifecycle_shard(kinds, ntrainers, with_extra, depth, max_states):
    tally = Tally()
    sysm = LifecycleSystem(kinds, ntrainers, with_extra)
    orig_step = sysm.step
    hist_holder = {}

    # wrap step so that the differential oracle runs on every checked transition (needs the history)
    class Wrapped(LifecycleSystem):
        pass

    def build(history, only=None):
        hist_holder["h"] = list(history)
        return LifecycleSystem.build(sysm, history, only)

    def step(st, op, check=True):
        bad = orig_step(st, op, check)
        if check and not bad:
            bad = bad + sysm.differential(st, hist_holder["h"] + [op], tally)
        return bad

    sysm.build = build
    sysm.step = step

    def nontrivial(st, op):
        if op[0] in ("step", "call"):
            return (kinds, ntrainers, with_extra, op, sysm.canon(st))
        return None

    res = explore(sysm, tally, max_depth=depth, max_states=max_states, nontrivial=nontrivial)
    if res["fixpoint"]:
        tally.add("fixpoint_configs")
    return tally


def two_layer_shard(kind, depth):
    """one trainer, cells from TWO different layers that use the same internal names (two Serial layers): a cell's monitors
    record exactly one observation per step of ITS layer and none for steps of the other layer"""
    from inferno.neural import Serial
    tally = Tally()
    ops = [("reg", 0), ("reg", 1), ("step", 0), ("step", 1), ("del", 0), ("del", 1), ("eval",), ("train",)]

    def world():
        def layer():
            c = LinearDense((2,), (2,), DT, synapse=DeltaCurrent.partialconstructor(DT), batch_size=1, weight_init=lambda w: torch.full_like(w, 0.5))
            c.updater = c.defaultupdater()
            return Serial(c, ExactNeuron((2,), DT, rest_v=-60.0, thresh_v=-45.0, batch_size=1))
        return [layer(), layer()], make_trainer(kind, 0)

    for d in range(1, depth + 1):
        for seq in itertools.product(ops, repeat=d):
            # only sequences that end in a layer step decide something; prune immediate repeats of non-step events
            if seq[-1][0] != "step":
                continue
            layers, tr = world()
            reg = [False, False]
            training = True
            counts = {}
            hooked = {}
            legal = True
            tally.add("transitions")
            for k, op in enumerate(seq):
                last = k == len(seq) - 1
                try:
                    if op[0] == "reg":
                        if reg[op[1]]:
                            legal = False
                            break
                        tr.register_cell(f"c{op[1]}", layers[op[1]].cell)
                        reg[op[1]] = True
                    elif op[0] == "del":
                        if not reg[op[1]]:
                            legal = False
                            break
                        tr.del_cell(f"c{op[1]}")
                        reg[op[1]] = False
                    elif op[0] == "eval":
                        tr.eval()
                        training = False
                    elif op[0] == "train":
                        tr.train()
                        training = True
                    elif op[0] == "step":
                        for i in (0, 1):
                            if reg[i]:
                                for n, mon in tr.named_monitors_of(f"c{i}"):
                                    if id(mon.reducer) not in hooked:
                                        counts[id(mon.reducer)] = 0
                                        mon.reducer.register_forward_hook(lambda m_, a_, o_, key=id(mon.reducer): counts.__setitem__(key, counts[key] + 1))
                                        hooked[id(mon.reducer)] = mon.reducer
                        before = dict(counts)
                        x = torch.tensor([[1, k % 2]], dtype=torch.bool)
                        layers[op[1]](x, neuron_kwargs={"override": torch.tensor([[1, 1]], dtype=torch.bool)})
                        if last:
                            case = {"config": {"trainers": [kind], "two_layers": True}, "history": [list(o) for o in seq]}
                            for i in (0, 1):
                                if not reg[i]:
                                    continue
                                for n, mon in tr.named_monitors_of(f"c{i}"):
                                    delta = counts[id(mon.reducer)] - before.get(id(mon.reducer), 0)
                                    exp = 1 if (i == op[1] and training) else 0
                                    if delta != exp:
                                        what = "missed-observation" if delta < exp else "foreign-observation"
                                        tally.violation(f"two-layers:{what}:{kind}:{n}", case, f"step of layer {op[1]}: monitor '{n}' of cell c{i} (layer {i}) recorded "
                                                        f"{delta} observation(s), expected {exp}", exp, delta)
                            tally.mark("nontrivial", ("two-layers", kind, seq))
                except Exception as ex:
                    if last:
                        tally.violation(f"two-layers:exception:{kind}:{type(ex).__name__}", {"config": {"trainers": [kind], "two_layers": True}, "history": [list(o) for o in seq]}, repr(ex))
                    legal = False
                    break
    tally.add("states", 1)
    tally.sample({"part": "two layers on one trainer", "trainer": kind, "depth": depth, "events": [list(o) for o in ops]})
    return tally


def recurrent_layer_shard(kind, depth):
    """one trainer on the three cells of a RecurrentSerial(trainable_feedback=True) whose populations differ in size (cells share
    neuron groups): for every sequence over {step, clear, trainer.eval/train, layer.eval/train} every monitor of every cell
    records exactly one observation per step taken with both in training mode, none otherwise - from the very first step and
    from the first step after a clear"""
    from inferno.neural import RecurrentSerial
    tally = Tally()
    ops = [("step",), ("clear",), ("eval",), ("train",), ("leval",), ("ltrain",)]

    def world():
        def conn(i, o):
            c = LinearDense((i,), (o,), DT, synapse=DeltaCurrent.partialconstructor(DT), batch_size=1, weight_init=lambda w: torch.full_like(w, 0.5))
            c.updater = c.defaultupdater()
            return c
        nff = ExactNeuron((2,), DT, rest_v=-60.0, thresh_v=-45.0, batch_size=1)
        nfb = ExactNeuron((3,), DT, rest_v=-60.0, thresh_v=-45.0, batch_size=1)
        layer = RecurrentSerial(conn(2, 2), conn(2, 3), conn(3, 2), nff, nfb, trainable_feedback=True)
        tr = make_trainer(kind, 0)
        cells = dict(layer.named_cells) if hasattr(layer, "named_cells") else None
        return layer, tr

    for d in range(1, depth + 1):
        for seq in itertools.product(ops, repeat=d):
            if seq[-1][0] != "step" or any(seq[i] == seq[i + 1] and seq[i][0] != "step" for i in range(len(seq) - 1)):
                continue
            tally.add("transitions")
            case = {"config": {"trainers": [kind], "layer": "RecurrentSerial[2,3] trainable feedback"}, "history": [list(o) for o in seq]}
            try:
                layer, tr = world()
                names = []
                for cn, cell in layer.named_cells:
                    nm = "_".join(cn) if isinstance(cn, tuple) else str(cn)
                    tr.register_cell(nm, cell)
                    names.append(nm)
                counts, hooked = {}, {}
                for nm in names:
                    for n, mon in tr.named_monitors_of(nm):
                        if id(mon.reducer) not in hooked:
                            counts[id(mon.reducer)] = 0
                            mon.reducer.register_forward_hook(lambda m_, a_, o_, key=id(mon.reducer): counts.__setitem__(key, counts[key] + 1))
                            hooked[id(mon.reducer)] = mon.reducer
                ttrain, ltrain = True, True
                for k, op in enumerate(seq):
                    if op[0] == "clear":
                        layer.clear()
                        tr.clear()
                    elif op[0] == "eval":
                        tr.eval()
                        ttrain = False
                    elif op[0] == "train":
                        tr.train()
                        ttrain = True
                    elif op[0] == "leval":
                        layer.eval()
                        ltrain = False
                    elif op[0] == "ltrain":
                        layer.train()
                        ltrain = True
                    else:
                        before = dict(counts)
                        x = torch.tensor([[1, k % 2]], dtype=torch.bool)
                        layer(x, feedfwd_neuron_kwargs={"override": torch.tensor([[1, (k + 1) % 2]], dtype=torch.bool)},
                              feedback_neuron_kwargs={"override": torch.tensor([[1, 0, k % 2]], dtype=torch.bool)})
                        exp = 1 if (ttrain and ltrain) else 0
                        for nm in names:
                            for n, mon in tr.named_monitors_of(nm):
                                delta = counts[id(mon.reducer)] - before[id(mon.reducer)]
                                if delta != exp:
                                    tally.violation(f"recurrent-layer:{'missed' if delta < exp else 'extra'}-observation:{kind}:{n}", {**case, "step_index": k},
                                                    f"step {k}: monitor '{n}' of cell '{nm}' recorded {delta} observation(s), expected {exp}", exp, delta)
                tally.mark("nontrivial", ("recurrent-layer", kind, seq))
            except Exception as ex:
                tally.violation(f"recurrent-layer:exception:{kind}:{type(ex).__name__}", case, f"{type(ex).__name__}: {ex}", None, repr(ex))
    tally.add("states", 1)
    tally.sample({"part": "recurrent layer, unequal populations", "trainer": kind, "depth": depth})
    return tally


def pooling_identity_shard(kind):
    """Monitors are pooled between two cells of one trainer only when they would compute the same thing: two cells ending on one neuron
    group, the second registered with per-cell overrides that change exactly one hyper-parameter (every overridable one in turn).
    After every sequence of layer steps up to length 3 each cell's monitors hold what its OWN hyper-parameters give (differential:
    the same cell registered alone on a twin trainer and layer), and with identical hyper-parameters the cells do share."""
    tally = Tally()
    overrides = {"stdp": [{}, {"lr_pre": -0.0625}, {"lr_post": 0.25}, {"tc_post": 8.0}, {"tc_pre": 8.0}, {"trace_mode": "nearest"}],
                 "mstdpet": [{}, {"lr_pre": -0.0625}, {"lr_post": 0.25}, {"tc_post": 8.0}, {"tc_pre": 8.0}, {"tc_eligibility": 9.0}]}[kind]
    for ov in overrides:
        for nsteps in (1, 2, 3):
            tally.add("transitions")
            case = {"config": {"trainers": [kind], "part": "pooling identity"}, "override_on_cell_b": {k: v for k, v in ov.items()}, "steps": nsteps}
            try:
                worlds = []
                for solo in (False, True):
                    w = World((kind, kind))
                    tr = w.trainers[0]
                    if not solo:
                        tr.register_cell("a", w.layer.get_cell("a", "x"))
                    tr.register_cell("b", w.layer.get_cell("b", "x"), **ov)
                    for _ in range(nsteps):
                        w.step()
                    worlds.append((w, tr))
                (w2, t2), (w1, t1) = worlds
                for n, mon in t2.named_monitors_of("b"):
                    ref = dict(t1.named_monitors_of("b"))[n]
                    a, b = mon.peek(), ref.peek()
                    same = (a is None and b is None) or (a is not None and b is not None and a.shape == b.shape and torch.allclose(a, b, equal_nan=True))
                    if not same:
                        tally.violation(f"pooling:{kind}:wrong-monitor-shared:{n}", case, f"monitor '{n}' of cell b holds {None if a is None else a.reshape(-1).tolist()} "
                                        f"when cell a is registered too, {None if b is None else b.reshape(-1).tolist()} when b is alone (override {ov})")
                if not ov:
                    ma, mb = dict(t2.named_monitors_of("a")), dict(t2.named_monitors_of("b"))
                    shared = [n for n in mb if n in ma and ma[n] is mb[n]]
                    if not shared:
                        tally.violation(f"pooling:{kind}:nothing-shared", case, "two cells with identical hyper-parameters on one neuron group share no monitor")
                tally.mark("nontrivial", ("pooling", kind, tuple(sorted(ov.items())), nsteps))
            except Exception as ex:
                tally.violation(f"pooling:exception:{kind}:{type(ex).__name__}", case, f"{type(ex).__name__}: {ex}", None, repr(ex))
    tally.add("states", 1)
    tally.sample({"part": "pooling identity", "trainer": kind, "overrides": [list(o) for o in overrides]})
    return tally


def run(rep):
    quick = rep.tier == "quick"
    jobs = []
    for k in ("stdp", "mstdpet", "kernel"):
        jobs.append((two_layer_shard, (k, 4 if quick else 5)))
    for k in ("stdp", "kernel"):
        jobs.append((recurrent_layer_shard, (k, 3 if quick else 4)))
    for k in ("stdp", "mstdpet"):
        jobs.append((pooling_identity_shard, (k,)))
    depth1 = 5 if quick else 7
    depth2 = 3 if quick else 5
    cap = 2500 if quick else 20000
    for k in ("stdp", "mstdpet", "kernel", "homeo"):
        jobs.append((lifecycle_shard, ((k, k), 1, True, depth1, cap)))
    pairs = (("stdp", "stdp"), ("mstdpet", "stdp"), ("stdp", "kernel"), ("kernel", "mstdpet"))
    if not quick:
        pairs += (("stdp", "mstdpet"), ("mstdpet", "mstdpet"), ("kernel", "kernel"))
    for k1, k2 in pairs:
        jobs.append((lifecycle_shard, ((k1, k2), 2, False, depth2 + 1, cap)))
        jobs.append((lifecycle_shard, ((k1, k2), 2, True, depth2, cap)))
    tally = run_shards(jobs, seed=rep.seed)
    rep.tally.merge(tally)
    c = tally.counts
    rep.assumptions += [
        "observations are counted by torch forward hooks on the reducers; gc is disabled and collection is an explicit event",
        "a trainer step is only an enabled event when every monitor of its cells has recorded at least one observation since registration/clear",
        "custom monitors are the only monitors deleted individually (deleting a rule's own monitors breaks that rule by definition)",
        "canonical key: registry, modes, liveness, aliasing classes and registration flags of monitor objects, owner of every cell-side monitor "
        "name, layer hook count, per-cell data flag (0/1/2+)",
    ]
    cov = {
        "states": c.get("states", 0),
        "transitions": c.get("transitions", 0),
        "traces_validated_against_impl": c.get("transitions", 0),
        "max_depth": c.get("max_depth", 0),
        "depth_bound": {"one_trainer": depth1, "two_trainers": depth2 + 1, "two_trainers_with_custom_monitors": depth2},
        "configurations": len(jobs),
        "capped_configurations": c.get("capped_configs", 0),
        "state_capped_configurations": c.get("state_capped_configs", 0),
        "exhaustive": c.get("state_capped_configs", 0) == 0,
        "exhaustive_note": "all event sequences up to the depth bound per configuration (canonical-state dedup); capped_configurations counts configurations "
                           "whose frontier was cut by the depth bound or the state cap",
        "evaluations": c.get("transitions", 0),
        "distinct_nontrivial": len(tally.sets.get("nontrivial", ())),
        "rule": "BFS over lifecycle event sequences on real trainers/layers with a registry model; non-trivial = distinct (configuration, state) pairs from "
                "which a layer step or trainer step was executed",
    }
    return rep.finish(cov, floors={"states": 500, "transitions": 5000})


def replay(case):
    cfg = case["config"]
    kinds = tuple(cfg["trainers"]) if len(cfg["trainers"]) == 2 else (cfg["trainers"][0], cfg["trainers"][0])
    sysm = LifecycleSystem(kinds, len(cfg["trainers"]), cfg["custom_monitors"])
    st = sysm.build([])
    hist = []
    for op in case["history"]:
        op = tuple(op)
        bad = sysm.step(st, op, check=True)
        hist.append(op)
        if not bad:
            bad = sysm.differential(st, hist, None)
        if bad:
            return {"violations": [b[:2] for b in bad], "at": list(op)}
    return {"violations": []}
