"""C12 - checkpoint at any step, restore into another instance, identical future (E4: fault points).

For every model of a small zoo and EVERY step index k in [0, T] the state dictionaries of the model
and its trainer are serialised (torch.save to memory) at k, loaded into a target instance - freshly
constructed (warmed by one step on other data when k >= 1, so lazily shaped recorders exist) or
already run j steps on other data - and the run is continued. From k on every output, state
variable, logical record history, adaptation, parameter and derived classifier buffer must equal
the uninterrupted run bitwise.
"""

from __future__ import annotations

import io
import itertools

import torch

import inferno
from inferno.functional import exp_stdp_post_kernel, exp_stdp_pre_kernel
from inferno.learn import STDP, TripletSTDP, MSTDPET, KernelSTDP, LinearHomeostasis, MaxRateClassifier, DelayAdjustedSTDP
from inferno.neural import (LIF, ALIF, AdEx, Izhikevich, DeltaCurrent, DeltaPlusCurrent, SingleExponentialCurrent, DoubleExponentialCurrent,
                            LinearDense, LinearDirect, LinearLateral, Conv2D, Serial, Biclique, RecurrentSerial)
from inferno.observe import CumulativeTraceReducer, NearestTraceReducer, EMAReducer, CAReducer, EventReducer, PassthroughReducer
from inferno.core.infrastructure import RecordTensor

from mc.common import Tally
from mc.pool import run_shards
from checks.c03_neurons import HP

ID = "C12"
LEVEL = "fault_enumeration"
DT = 1.0
T = 8


def pattern(t, n, salt=0):
    """deterministic input bits: step t, width n"""
    return [((t * 7 + i * 3 + salt * 2 + (t * t) // 3) % 5) in (0, 1, 3) for i in range(n)]


def records_state(mod, prefix=""):
    out = {}
    for mname, m in mod.named_modules():
        for k, v in list(vars(m).items()):
            if isinstance(v, RecordTensor) and not v.ignored:
                out[f"{prefix}{mname}.{k}"] = torch.stack([v.read(o) for o in range(1, v.recordsz + 1)], 0).clone()
    return out


class Zoo:
    """a model: modules (for state dicts), step(t, salt) -> outputs dict, observe() -> state dict"""

    def __init__(self, name, inplace):
        self.name, self.inplace = name, inplace
        self.mods = {}
        build = getattr(self, "build_" + name)
        build()

    # ---------------- builders
    def neuron(self, cname, n, refrac=2.0):
        from checks.c03_neurons import CLS
        hp = dict(HP[cname][0])
        # scale so that unit currents make the neurons fire now and then
        return CLS[cname]((n,) if isinstance(n, int) else n, DT, refrac_t=refrac, batch_size=1, **hp)

    def finish(self, layer, trainer, cells):
        for c in cells:
            c.connection.updater = c.connection.defaultupdater()
        self.layer, self.trainer = layer, trainer
        self.mods = {"layer": layer}
        if trainer is not None:
            for i, c in enumerate(cells):
                trainer.register_cell(f"cell{i}", c)
            self.mods["trainer"] = trainer

    def build_dense_exp_lif_stdp(self):
        conn = LinearDense((3,), (2,), DT, synapse=SingleExponentialCurrent.partialconstructor(6.0, 2.0, inplace=self.inplace), delay=3.0, batch_size=1,
                           weight_init=lambda w: torch.tensor([[1.0, 2.0, 0.5], [0.5, 1.0, 2.0]]), delay_init=lambda d: torch.tensor([[0.0, 1.0, 2.0], [3.0, 1.0, 0.0]]))
        layer = Serial(conn, self.neuron("LIF", 2))
        self.n_in = 3
        self.finish(layer, STDP(0.05, -0.03, 4.0, 3.0, delayed=True), [layer.cell])

    def build_dense_delta_lif_inthp_stdp(self):
        """voltage hyper-parameters written as whole Python ints (as the repository's own examples do): buffers must still be float"""
        conn = LinearDense((3,), (2,), DT, synapse=DeltaCurrent.partialconstructor(40.0, inplace=self.inplace), delay=2.0, batch_size=1,
                           weight_init=lambda w: torch.tensor([[1.0, 2.0, 0.5], [0.5, 1.0, 2.0]]), delay_init=lambda d: torch.tensor([[0.0, 1.0, 2.0], [2.0, 1.0, 0.0]]))
        from inferno.neural import LIF
        layer = Serial(conn, LIF((2,), DT, rest_v=-60, reset_v=-65, thresh_v=-45, refrac_t=2, time_constant=20, resistance=1, batch_size=1))
        self.n_in = 3
        self.finish(layer, STDP(0.05, -0.03, 4.0, 3.0, delayed=True), [layer.cell])

    def build_direct_delta_alif_triplet(self):
        conn = LinearDirect((2,), DT, synapse=DeltaCurrent.partialconstructor(3.0, inplace=self.inplace), delay=2.0, batch_size=1,
                            weight_init=lambda w: torch.tensor([1.5, 1.0]), delay_init=lambda d: torch.tensor([1.0, 2.0]))
        layer = Serial(conn, self.neuron("ALIF", 2, 1.0))
        self.n_in = 2
        self.finish(layer, TripletSTDP(0.05, 0.01, -0.03, 0.01, 2.0, 8.0, 3.0, 6.0, delayed=True, inplace=self.inplace), [layer.cell])

    def build_lateral_dexp_adex_mstdpet(self):
        conn = LinearLateral((3,), DT, synapse=DoubleExponentialCurrent.partialconstructor(8.0, 4.0, 1.0, inplace=self.inplace), delay=2.0, batch_size=1,
                             weight_init=lambda w: torch.full_like(w, 1.5), delay_init=lambda d: torch.tensor([[0.0, 1.0, 2.0], [2.0, 0.0, 1.0], [1.0, 2.0, 0.0]]))
        layer = Serial(conn, self.neuron("AdEx", 3, 1.0))
        self.n_in = 3
        self.signal = True
        self.finish(layer, MSTDPET(0.05, -0.03, 4.0, 3.0, 5.0), [layer.cell])

    def build_conv_deltaplus_izh_kernel(self):
        conn = Conv2D(1, 4, 1, 2, DT, (1, 2), synapse=DeltaPlusCurrent.partialconstructor(2.0, inplace=self.inplace), delay=2.0, batch_size=1,
                      weight_init=lambda w: torch.tensor([[[[1.0, 2.0]]], [[[2.0, 0.5]]]]), delay_init=lambda d: torch.tensor([[[[0.0, 1.0]]], [[[2.0, 1.0]]]]))
        layer = Serial(conn, self.neuron("Izhikevich", (2, 1, 3), 1.0))
        self.n_in = 4
        self.conv = True
        self.finish(layer, KernelSTDP(exp_stdp_post_kernel, exp_stdp_pre_kernel, dict(learning_rate=0.05, time_constant=4.0),
                                      dict(learning_rate=-0.03, time_constant=3.0), delayed=True, inplace=self.inplace), [layer.cell])

    def build_biclique_homeostasis(self):
        def dn(W):
            return LinearDense((2,), (2,), DT, synapse=DeltaCurrent.partialconstructor(3.0, inplace=self.inplace), bias=True, delay=1.0, batch_size=1,
                               weight_init=lambda w: W.clone(), bias_init=lambda b: torch.zeros_like(b))
        layer = Biclique([("a", dn(torch.tensor([[1.0, 0.5], [0.5, 1.0]]))), ("b", dn(torch.tensor([[0.5, 1.0], [1.0, 0.5]])))],
                         [("n1", self.neuron("LIF", 2)), ("n2", self.neuron("ALIF", 2, 1.0))], combine="sum")
        self.n_in = 2
        self.biclique = True
        self.finish(layer, LinearHomeostasis(0.02, 0.3, "weight"), [layer.get_cell("a", "n1"), layer.get_cell("b", "n2")])

    def build_recurrent_dastdp(self):
        def dn(W, delay=None):
            kw = dict(delay=delay, delay_init=lambda d: torch.tensor([[0.0, 1.0], [1.0, 0.0]])) if delay else {}
            return LinearDense((2,), (2,), DT, synapse=SingleExponentialCurrent.partialconstructor(6.0, 2.0, inplace=self.inplace), batch_size=1,
                               weight_init=lambda w: W.clone(), **kw)
        layer = RecurrentSerial(dn(torch.tensor([[1.0, 2.0], [2.0, 1.0]]), 1.0), dn(torch.tensor([[1.0, 0.5], [0.5, 1.0]])), dn(torch.tensor([[0.5, 0.0], [0.0, 0.5]])),
                                self.neuron("LIF", 2, 1.0), self.neuron("LIF", 2, 2.0))
        self.n_in = 2
        self.recurrent = True
        self.finish(layer, DelayAdjustedSTDP(lr_pos=0.05, lr_neg=-0.03, tc_pos=4.0, tc_neg=3.0, inplace=self.inplace), [layer.feedfwd_cell])

    def build_dense_delta_qif_dastdpd(self):
        from inferno.learn import DelayAdjustedSTDPD
        conn = LinearDense((2,), (2,), DT, synapse=DeltaCurrent.partialconstructor(6.0, inplace=self.inplace), delay=3.0, batch_size=1,
                           weight_init=lambda w: torch.tensor([[1.0, 2.0], [2.0, 1.0]]), delay_init=lambda d: torch.tensor([[0.5, 1.0], [2.0, 1.5]]))
        layer = Serial(conn, self.neuron("QIF", 2, 1.0))
        self.n_in = 2
        self.finish(layer, DelayAdjustedSTDPD(lr_neg=-0.05, lr_pos=0.03, tc_neg=3.0, tc_pos=4.0, inplace=self.inplace), [layer.cell])

    def build_direct_exp_glif2_mstdp(self):
        from inferno.learn import MSTDP
        conn = LinearDirect((3,), DT, synapse=SingleExponentialCurrent.partialconstructor(8.0, 2.0, inplace=self.inplace), delay=2.0, batch_size=1,
                            weight_init=lambda w: torch.tensor([1.5, 1.0, 2.0]), delay_init=lambda d: torch.tensor([0.0, 2.0, 1.0]))
        layer = Serial(conn, self.neuron("GLIF2", 3, 1.0))
        self.n_in = 3
        self.signal = True
        self.finish(layer, MSTDP(0.05, -0.03, 4.0, 3.0, delayed=True), [layer.cell])

    def build_dense_dexp_eif_dakernel(self):
        from inferno.learn import DelayAdjustedKernelSTDP
        conn = LinearDense((2,), (3,), DT, synapse=DoubleExponentialCurrent.partialconstructor(8.0, 4.0, 1.0, inplace=self.inplace), delay=2.0, batch_size=1,
                           weight_init=lambda w: torch.tensor([[1.0, 2.0], [2.0, 1.0], [1.5, 1.5]]), delay_init=lambda d: torch.tensor([[0.0, 1.0], [2.0, 1.0], [1.0, 0.0]]))
        layer = Serial(conn, self.neuron("EIF", 3, 1.0))
        self.n_in = 2
        self.finish(layer, DelayAdjustedKernelSTDP(exp_stdp_post_kernel, exp_stdp_pre_kernel, dict(learning_rate=torch.tensor(0.05), time_constant=torch.tensor(4.0)),
                                                  dict(learning_rate=torch.tensor(-0.03), time_constant=torch.tensor(3.0)), inplace=self.inplace), [layer.cell])

    def build_reducers(self):
        class Holder(inferno.Module):
            pass

        h = Holder()
        h.trace = CumulativeTraceReducer(DT, 3.0, 1.0, 1.0, duration=3.0, inplace=self.inplace)
        h.near = NearestTraceReducer(DT, 3.0, 0.5, 1.0, duration=2.5, inplace=self.inplace)
        h.ema = EMAReducer(DT, 0.25, duration=2.0, inplace=self.inplace)
        h.ca = CAReducer(DT, duration=4.0, inplace=self.inplace)
        h.ev = EventReducer(DT, lambda x: x > 0.5, "inf", duration=3.0, inplace=self.inplace)
        h.ps = PassthroughReducer(DT, duration=0.0, inplace=self.inplace)
        # several single-slot records fed the very same tensor object: each must hold its own copy
        h.ema0 = EMAReducer(DT, 0.5, duration=0.0, inplace=self.inplace)
        h.ca0 = CAReducer(DT, duration=0.0, inplace=self.inplace)
        self.holder = h
        self.n_in = 3
        self.layer, self.trainer = None, None
        self.mods = {"reducers": h}

    def build_neurons(self):
        """bare neuron groups (no trainer, hence no lazily shaped recorder: a never-stepped target accepts every checkpoint);
        one group per class, the first with voltage hyper-parameters written as whole Python ints"""
        from checks.c03_neurons import CLS, shifted_hp
        from inferno.neural import LIF

        class Holder(inferno.Module):
            pass

        h = Holder()
        h.lif_int = LIF((2,), DT, rest_v=-60, reset_v=-65, thresh_v=-58, refrac_t=2, time_constant=20, resistance=1, batch_size=1)
        for cname in CLS:
            setattr(h, cname.lower(), CLS[cname]((2,), DT, refrac_t=2.0, batch_size=1, **shifted_hp(cname)))
        self.holder = h
        self.n_in = 2
        self.layer, self.trainer = None, None
        self.mods = {"neurons": h}

    def build_neurons64(self):
        """the same bare neuron groups converted with .to(float64): every state buffer stays float64 through clear() and load"""
        self.build_neurons()
        self.holder = self.holder.to(torch.float64)
        self.mods = {"neurons": self.holder}

    def build_neurons_evalmode(self):
        """the bare neuron groups, trained (adaptation learning) for the first step and run in evaluation mode from then on, with a
        drive that crosses the resting threshold but not an adapted one: a target that was itself last stepped in evaluation mode
        must follow the checkpoint's learned adaptation, not its own"""
        self.build_neurons()
        self.eval_from = 1

    def build_classifier(self):
        self.clf = MaxRateClassifier((3,), 2, decay=0.1)
        self.n_in = 3
        self.layer, self.trainer = None, None
        self.mods = {"classifier": self.clf}

    # ---------------- stepping
    def step(self, t, salt=0):
        bits = pattern(t, self.n_in, salt)
        if self.name == "reducers":
            x = torch.tensor([float(b) for b in bits])
            for r in self.holder.children():
                r(x)
            return {"peek:" + n: r.peek().clone() for n, r in self.holder.named_children()}
        if self.name in ("neurons", "neurons64", "neurons_evalmode"):
            outs = {}
            if getattr(self, "eval_from", None) is not None:
                self.holder.train(t < self.eval_from)
            for n, m in self.holder.named_children():
                x = torch.tensor([[float(b) for b in bits]], dtype=m.voltage.dtype if self.name == "neurons64" else torch.float32) * (30.0 if n == "lif_int" else (6.0 if self.name == "neurons_evalmode" else 2.5))
                if self.name == "neurons64":
                    x = x + 2.0 ** -30  # a component float32 cannot hold: a buffer that fell back to float32 loses it
                outs[n] = m(x).clone()
                outs["v:" + n] = m.voltage.clone()
            return outs
        if self.name == "classifier":
            x = torch.tensor([[float(b) for b in bits], [float(not b) for b in bits]])
            labels = torch.tensor([t % 2, (t + 1) % 2])
            out = self.clf(x, labels, logits=True)
            return {"pred": out[0].clone(), "logits": out[1].clone()}
        x = torch.tensor([bits], dtype=torch.bool)
        if getattr(self, "conv", False):
            x = x.reshape(1, 1, 1, 4)
            o = self.layer(x, x.float() * 0.5)
            outs = {"out": o}
        elif getattr(self, "biclique", False):
            o = self.layer({"a": (x,), "b": (~x,)})
            outs = {"n1": o["n1"], "n2": o["n2"]}
        elif getattr(self, "recurrent", False):
            a, b = self.layer(x)
            outs = {"ff": a, "fb": b}
        else:
            outs = {"out": self.layer(x)}
        if getattr(self, "signal", False):
            self.trainer(1.0 if t % 3 else -0.5, 0.5)
        else:
            self.trainer()
        self.layer.update()
        return {k: v.clone() for k, v in outs.items()}

    def clear_all(self):
        """return the dynamic state to 'before the first observation' while keeping shapes (a legal prior state of a target,
        and a legal event of a run)"""
        if self.name == "reducers":
            for r in self.holder.children():
                r.clear(keepshape=True)
        elif self.name in ("neurons", "neurons64", "neurons_evalmode"):
            for m in self.holder.children():
                m.clear()
        elif self.name != "classifier":
            self.trainer.clear(keepshape=True)
            if getattr(self, "recurrent", False):
                # keep the lazily created feedback buffer: a None buffer is not part of a state dict (the property's proviso
                # about lazily shaped state applies to it)
                self.layer.clear(clear_feedback=False)
            else:
                self.layer.clear()

    def observe(self):
        out = {}
        for mn, m in self.mods.items():
            for k, v in m.state_dict().items():
                if isinstance(v, torch.Tensor) and not k.endswith("_data"):
                    out[f"sd:{mn}.{k}"] = v.clone()
            out.update(records_state(m, f"rec:{mn}."))
        if self.name == "classifier":
            out["assignments"] = self.clf.assignments.clone()
            out["occurrences"] = self.clf.occurrences.clone()
            out["proportions"] = self.clf.proportions.clone()
        return out

    def save(self):
        buf = io.BytesIO()
        torch.save({k: m.state_dict() for k, m in self.mods.items()}, buf)
        return buf.getvalue()

    def load(self, blob):
        sd = torch.load(io.BytesIO(blob), weights_only=False)
        for k, m in self.mods.items():
            m.load_state_dict(sd[k])


ZOO_EXTRA = ("dense_delta_qif_dastdpd", "direct_exp_glif2_mstdp", "dense_dexp_eif_dakernel")
ZOO = ("dense_exp_lif_stdp", "dense_delta_lif_inthp_stdp", "direct_delta_alif_triplet", "lateral_dexp_adex_mstdpet", "conv_deltaplus_izh_kernel", "biclique_homeostasis",
       "recurrent_dastdp", "reducers", "neurons", "neurons64", "neurons_evalmode", "classifier")


def eq(a, b):
    if a.shape != b.shape or a.dtype != b.dtype:
        return False
    return bool(torch.equal(a, b)) or bool(torch.allclose(a.float(), b.float(), rtol=0, atol=0, equal_nan=True))


def shard(name, inplace, clear_at=None):
    """clear_at: the run itself contains a keep-shape clear() right before step `clear_at` (so a checkpoint can be taken
    immediately after a clear)"""
    tally = Tally()
    cfg = {"model": name, "inplace": inplace, "T": T, "run_clears_before_step": clear_at}

    def advance(z, t):
        if clear_at is not None and t == clear_at:
            z.clear_all()
        return z.step(t)

    try:
        ref = Zoo(name, inplace)
        ref_out, ref_obs = [], []
        for t in range(T):
            ref_out.append(advance(ref, t))
            ref_obs.append(ref.observe())
    except Exception as ex:
        tally.violation(f"exception:uninterrupted:{name}:{type(ex).__name__}", cfg, repr(ex))
        return tally
    spikes = sum(int(v.sum()) for o in ref_out for v in o.values() if v.dtype == torch.bool)
    tally.mark("activity", (name, inplace, spikes > 0))
    for k in range(0, T + 1):
        # "unwarmed": a never-stepped target also for k >= 1. Its lazily shaped recorders do not exist yet, so a refused load is
        # the property's proviso and not reported; an accepted load must give the identical future like any other target.
        targets = [("fresh", 0)] if k == 0 else [("warmed", 1), ("ran", 3), ("cleared", 2), ("unwarmed", 0)]
        if name == "classifier" and k >= 1:
            targets.append(("cloned", 1))  # the target is a copy.deepcopy of a warmed prototype (an evaluation copy)
        if clear_at is not None and k == clear_at and k >= 1:
            pass  # the checkpoint is taken right after step k-1; the clear belongs to step k and happens in the continuation
        for tkind, j in targets:
            case = {**cfg, "checkpoint_at": k, "target": tkind, "target_steps_on_other_data": j}
            tally.add("evaluations")
            try:
                src = Zoo(name, inplace)
                for t in range(k):
                    advance(src, t)
                after_clear = clear_at is not None and k == clear_at
                if after_clear:
                    src.clear_all()  # checkpoint immediately after the clear
                blob = src.save()
                tgt = Zoo(name, inplace)
                for t in range(j):
                    tgt.step(t, salt=3)  # other data
                if tkind == "cleared":
                    tgt.clear_all()
                if tkind == "cloned":
                    import copy
                    proto, tgt = tgt, copy.deepcopy(tgt)
                tgt.load(blob)
            except Exception as ex:
                if tkind == "unwarmed":
                    tally.add("unwarmed_load_refused")
                    continue
                tally.violation(f"exception:save-load:{name}:{tkind}:{type(ex).__name__}", case, f"{type(ex).__name__}: {str(ex)[:300]}", None, repr(ex)[:500])
                continue
            if tkind == "unwarmed":
                tally.add("unwarmed_load_accepted")
            ok = True
            # state right after loading equals the state of the source at k
            if k >= 1 and not after_clear:
                obs = tgt.observe()
                for key, v in ref_obs[k - 1].items():
                    if key in obs and not eq(obs[key], v):
                        tally.violation(f"state-after-load:{name}:{key.split('.')[-1]}", {**case, "key": key}, f"{key} differs right after load_state_dict")
                        ok = False
                        break
            for t in range(k, T):
                if not ok:
                    break
                try:
                    out = tgt.step(t) if (after_clear and t == k) else advance(tgt, t)
                    obs = tgt.observe()
                except Exception as ex:
                    tally.violation(f"exception:continue:{name}:{type(ex).__name__}", {**case, "step": t}, f"{type(ex).__name__}: {str(ex)[:300]}")
                    ok = False
                    break
                for key, v in ref_out[t].items():
                    if not eq(out[key], v):
                        tally.violation(f"output-differs:{name}:{key}", {**case, "step": t}, f"step {t}: output '{key}' {out[key].reshape(-1).tolist()[:8]} vs uninterrupted "
                                        f"{v.reshape(-1).tolist()[:8]}")
                        ok = False
                        break
                if not ok:
                    break
                for key, v in ref_obs[t].items():
                    if key not in obs:
                        tally.violation(f"state-missing:{name}", {**case, "step": t, "key": key}, f"{key} missing in the continued run")
                        ok = False
                        break
                    if not eq(obs[key], v):
                        tally.violation(f"state-differs:{name}:{key.split('.')[-1]}", {**case, "step": t, "key": key},
                                        f"step {t}: {key} differs from the uninterrupted run: {obs[key].reshape(-1).tolist()[:6]} vs {v.reshape(-1).tolist()[:6]}")
                        ok = False
                        break
            tally.mark("nontrivial", (name, inplace, k, tkind))
        # ---- the checkpoint handed over in memory (no serialisation) to TWO targets, and the source keeps running: the three
        # instances must stay independent - the source continues like the uninterrupted run, both targets follow it
        if k >= 1 and clear_at is None:
            case = {**cfg, "checkpoint_at": k, "target": "two warmed targets from one in-memory state dict; source continues"}
            tally.add("evaluations")
            try:
                src = Zoo(name, inplace)
                for t in range(k):
                    advance(src, t)
                sd = {kk: m.state_dict() for kk, m in src.mods.items()}
                tg = []
                for _ in range(2):
                    z = Zoo(name, inplace)
                    z.step(0, salt=3)
                    for kk, m in z.mods.items():
                        m.load_state_dict(sd[kk])
                    tg.append(z)
                bad = None
                for t in range(k, T):
                    for who, z in (("source", src), ("target-1", tg[0]), ("target-2", tg[1])):
                        out = z.step(t)
                        for key, v in ref_out[t].items():
                            if not eq(out[key], v):
                                bad = (who, t, key, out[key], v)
                                break
                        if bad:
                            break
                    if bad:
                        break
                if bad:
                    who, t, key, got, v = bad
                    tally.violation(f"shared-checkpoint:{name}:{who}", {**case, "step": t, "instance": who}, f"step {t}: output '{key}' of the {who} "
                                    f"{got.reshape(-1).tolist()[:8]} vs uninterrupted {v.reshape(-1).tolist()[:8]} (instances loaded from one dict interfere)")
                tally.mark("nontrivial", (name, inplace, k, "in-memory"))
            except Exception as ex:
                tally.violation(f"exception:shared-checkpoint:{name}:{type(ex).__name__}", case, f"{type(ex).__name__}: {str(ex)[:300]}")
    tally.sample({**cfg, "checkpoint_indices": list(range(T + 1)), "spikes_in_uninterrupted_run": spikes})
    return tally


def ring_shard(N, shape, storage):
    """a bare RecordTensor checkpointed from EVERY reachable ring state (not only the states a simulation run visits: pointer moved by
    incr/decr/align, slots overwritten by range writes, a pop just before): the explorer and list model of C01 with one more operation,
    'roundtrip' = torch.save(state_dict) -> load_state_dict into a freshly constructed record that has already been pushed to on
    other data; the loaded record must show the model's pointer and contents (and the source is scribbled afterwards)."""
    from checks.c01_record import RingSystem
    from mc.explore import explore
    tally = Tally()
    sysm = RingSystem(N, tuple(shape), storage, "float32", False)
    sysm.lifecycle = True

    def nontrivial(st, op):
        return ("ring", N, tuple(shape), storage, st.p, tuple(map(tuple, st.M))) if op[0] == "roundtrip" else None

    explore(sysm, tally, max_states=None if N <= 2 else 400, nontrivial=nontrivial)
    tally.add("evaluations", len(tally.sets.get("nontrivial", ())))
    tally.mark("activity", ("ring", (N, tuple(shape), storage), True))
    return tally


def run(rep):
    jobs = [(ring_shard, (N, shape, storage)) for N in ((1, 2, 3) if rep.tier == "quick" else (1, 2, 3, 4))
            for shape in ((), (2,)) for storage in ("zeros", "param")]
    for name in (ZOO + ZOO_EXTRA if rep.tier != "quick" else ZOO + ZOO_EXTRA[:1]):
        for inplace in (False, True):
            if name == "classifier" and inplace:
                continue
            jobs.append((shard, (name, inplace)))
            if name != "classifier":
                jobs.append((shard, (name, inplace, 4)))
    tally = run_shards(jobs, seed=rep.seed)
    rep.tally.merge(tally)
    rep.assumptions += [
        "state dictionaries go through torch.save/torch.load in memory at the checkpoint (a live state_dict aliases buffers and is not a checkpoint)",
        "a fresh target is warmed by one step on other data when k>=1 (the property's proviso for lazily shaped recorders); at k=0 the target is unwarmed",
        f"T={T} steps (> every record size, so the checkpoint index sweeps every pointer position); one fixed deterministic input pattern per model",
    ]
    cov = {
        "evaluations": tally.counts.get("evaluations", 0),
        "distinct_nontrivial": len(tally.sets.get("nontrivial", ())),
        "models": len(jobs),
        "fault_points_per_model": T + 1,
        "exhaustive": True,
        "rule": "every checkpoint index k in [0,T] x target state {fresh/warmed, run 3 steps on other data, run 2 steps then cleared keeping shapes} x "
                "model zoo x inplace x {plain run, run with a keep-shape clear before step 4 (checkpoint right after the clear included)}; non-trivial = distinct "
                "(model, inplace, k, target) whose continuation was compared with the uninterrupted run",
    }
    cov["models_with_spiking_activity"] = len([a for a in tally.sets.get("activity", ()) if a[2]])
    return rep.finish(cov, floors={"evaluations": 300, "distinct_nontrivial": 100, "models_with_spiking_activity": 10})


def replay(case):
    t = shard(case["model"], case["inplace"], case.get("run_clears_before_step"))
    return {"violations": [[v["key"], v["message"]] for v in t.violations if v["case"].get("checkpoint_at") == case.get("checkpoint_at")]}
