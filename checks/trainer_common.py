"""Shared driver and reference arithmetic for the trainer properties (C08, C09, C11, C12, C15, C18).

Driver: Serial(connection, ExactNeuron). A step presents a presynaptic spike vector and *overrides*
the postsynaptic spikes, so the pre/post history is fully controlled. Histories ride the batch
dimension where the trainer is configured with an identity batch reduction (the accumulated parts
then keep one slice per history and are compared per history); real reductions are exercised on
small batches separately.

Reference space: synapse-level arrays
    pre_syn (T, B, N, L) bool   - presynaptic spike reaching receptive-field entry n at position l
    post    (T, B, F, L) bool   - postsynaptic spike of output f at position l
    K       (F, N) int          - per-synapse delay in steps
with (F, N, L) = (O, I, 1) for dense/lateral, (N, N, 1) + diagonal for direct, (filters, C*kh*kw, Hout*Wout) for conv.
"""

from __future__ import annotations

import itertools
import math

import torch

import inferno
from inferno.extra import ExactNeuron
from inferno.neural import LinearDense, LinearDirect, LinearLateral, Conv2D, DeltaCurrent, Serial

F64 = torch.float64


def identity_reduction(x, dim):
    """batch 'reduction' that keeps every sample: the trainer's parts keep one slice per history"""
    return x


class Cellspec:
    """tiny cells: geometry, constructor and the mapping to the reference space"""

    def __init__(self, kind, n_in=1, n_out=1):
        self.kind, self.n_in, self.n_out = kind, n_in, n_out
        if kind in ("dense", "densemd"):
            # densemd: the same cell with multi-dimensional population shapes (1, n_in) -> (n_out, 1)
            self.F, self.N, self.L, self.in_bits, self.out_bits = n_out, n_in, 1, n_in, n_out
            self.wshape = (n_out, n_in)
        elif kind == "direct":
            self.F, self.N, self.L, self.in_bits, self.out_bits = n_in, n_in, 1, n_in, n_in
            self.wshape = (n_in,)
        elif kind == "lateral":
            self.F, self.N, self.L, self.in_bits, self.out_bits = n_in, n_in, 1, n_in, n_in
            self.wshape = (n_in, n_in)
        elif kind in ("conv", "conv2c"):
            # conv: 1 channel, 1x3 input, kernel (1,2) -> 2 positions; conv2c: 2 channels, 1x2 input, kernel (1,2) -> 1 position
            # (the receptive axis then mixes channel and kernel column: (c kh kw) order matters); n_out filters
            self.C, self.W = (1, 3) if kind == "conv" else (2, 2)
            self.F, self.N, self.L, self.in_bits, self.out_bits = n_out, self.C * 2, self.W - 1, self.C * self.W, n_out * (self.W - 1)
            self.wshape = (n_out, self.C, 1, 2)
        else:
            raise ValueError(kind)

    def build(self, dt, B, maxdelay=None, delays=None, w0=None):
        kw = dict(synapse=DeltaCurrent.partialconstructor(spike_charge=dt), batch_size=B)
        if w0 is None:
            w0 = torch.full(self.wshape, 0.5)
        kw["weight_init"] = lambda w: w0.clone().float()
        if maxdelay is not None:
            kw["delay"] = maxdelay
            if delays is not None:
                kw["delay_init"] = lambda d: delays.clone().float()
        if self.kind == "dense":
            conn = LinearDense((self.n_in,), (self.n_out,), dt, **kw)
            nshape = (self.n_out,)
        elif self.kind == "densemd":
            conn = LinearDense((1, self.n_in), (self.n_out, 1), dt, **kw)
            nshape = (self.n_out, 1)
        elif self.kind == "direct":
            conn = LinearDirect((self.n_in,), dt, **kw)
            nshape = (self.n_in,)
        elif self.kind == "lateral":
            conn = LinearLateral((self.n_in,), dt, **kw)
            nshape = (self.n_in,)
        else:
            conn = Conv2D(1, self.W, self.C, self.n_out, dt, (1, 2), **kw)
            nshape = (self.n_out, 1, self.L)
        conn.updater = conn.defaultupdater()
        neuron = ExactNeuron(nshape, dt, rest_v=-60.0, thresh_v=-45.0, batch_size=B)
        layer = Serial(conn, neuron)
        return layer

    # ---- inputs
    def pre_tensor(self, bits):
        """bits: (B, in_bits) 0/1 -> connection input"""
        x = torch.tensor(bits, dtype=torch.bool)
        if self.kind in ("conv", "conv2c"):
            return x.reshape(-1, self.C, 1, self.W)
        if self.kind == "densemd":
            return x.reshape(-1, 1, self.n_in)
        return x

    def post_tensor(self, bits):
        x = torch.tensor(bits, dtype=torch.bool)
        if self.kind in ("conv", "conv2c"):
            return x.reshape(-1, self.n_out, 1, self.L)
        if self.kind == "densemd":
            return x.reshape(-1, self.n_out, 1)
        return x

    def pre_syn(self, bits):
        """(B, in_bits) -> (B, N, L) bool in the reference space"""
        x = torch.tensor(bits, dtype=torch.bool)
        if self.kind in ("conv", "conv2c"):
            xc = x.reshape(-1, self.C, self.W)  # n = (channel, kernel column) channel-major, l = position: x[c, l + kw]
            return torch.stack([xc[:, c, kw:kw + self.L] for c in range(self.C) for kw in range(2)], 1)
        return x.unsqueeze(-1)

    def post_ref(self, bits):
        x = torch.tensor(bits, dtype=torch.bool)
        if self.kind in ("conv", "conv2c"):
            return x.reshape(-1, self.n_out, self.L)
        return x.unsqueeze(-1)

    def delays_to_K(self, delays, dt):
        """connection-shaped delay tensor (time) -> (F, N) steps (float, may be fractional)"""
        if delays is None:
            return torch.zeros(self.F, self.N, dtype=F64)
        d = delays.to(F64) / dt
        if self.kind == "direct":
            return torch.diag(d) + torch.zeros(self.F, self.N, dtype=F64)
        if self.kind in ("conv", "conv2c"):
            return d.reshape(self.F, self.N)
        return d

    def to_weight_space(self, fn):
        """(…, F, N) reference tensor -> (…, *wshape)"""
        if self.kind == "direct":
            return torch.diagonal(fn, dim1=-2, dim2=-1)
        if self.kind in ("conv", "conv2c"):
            return fn.reshape(*fn.shape[:-2], *self.wshape)
        return fn

    def mask(self):
        """entries of the weight that are real synapses"""
        if self.kind == "lateral":
            return (1 - torch.eye(self.n_in)).bool()
        return torch.ones(self.wshape, dtype=torch.bool)


def step_layer(layer, pre, post):
    """one layer step with overridden postsynaptic spikes under the caller-side input contract: the two tensors must come back
    untouched (else ContractViolation, which callers / the shard pool report as a violation) and are overwritten right after the call, so a
    monitor / synapse / neuron that aliased them instead of copying is corrupted before the trainer reads it"""
    from mc.common import ContractViolation, Guard

    g = Guard(pre, post)
    out = layer(pre, neuron_kwargs={"override": post})
    if not g.release():
        raise ContractViolation("input-mutated:layer-step", "the layer step modified the caller's input or override tensor in place")
    return out


def all_histories(T, nbits):
    """all boolean histories of length T over nbits-wide letters, as a (H, T, nbits) int list"""
    letters = list(itertools.product((0, 1), repeat=nbits))
    return [list(h) for h in itertools.product(letters, repeat=T)]


def shifted_pre(pre_syn, K):
    """pre_syn (T,B,N,L) bool, K (F,N) integer steps -> (T,B,F,N,L) bool: spikes as they arrive at each synapse"""
    T, B, N, L = pre_syn.shape
    Fn = K.shape[0]
    out = torch.zeros(T, B, Fn, N, L, dtype=torch.bool)
    for f in range(Fn):
        for n in range(N):
            k = int(round(float(K[f, n])))
            if k < T:
                out[k:, :, f, n, :] = pre_syn[: T - k, :, n, :]
    return out


def trace(events, dt, tau, amp, mode):
    """events (T, ...) bool -> (T, ...) float64 trace evaluated AFTER each step (simultaneous events included)"""
    T = events.shape[0]
    ev = events.to(F64)
    out = torch.zeros(events.shape, dtype=F64)
    for t in range(T):
        if mode == "cumulative":
            for u in range(t + 1):
                out[t] += ev[u] * amp * math.exp(-(t - u) * dt / tau)
        else:
            last = torch.full(events.shape[1:], -1, dtype=torch.long)
            for u in range(t + 1):
                last = torch.where(events[u], torch.full_like(last, u), last)
            val = amp * torch.exp(-(t - last).to(F64) * dt / tau)
            out[t] = torch.where(last >= 0, val, torch.zeros_like(val))
    return out


def prev(x):
    """value one step earlier (zero before the start)"""
    return torch.cat((torch.zeros_like(x[:1]), x[:-1]), 0)
