"""C17 - layers wire components as documented; clear() restores the initial state (E2, differential).

Each layer is compared with a manual composition of separately constructed, identically parameterised
components. All boolean input histories of length T are run at once as the batch dimension. clear()
is applied at every position; replaying from the start must reproduce a fresh layer bitwise while
weights and adaptations are kept.
"""

from __future__ import annotations

import itertools

import torch

import inferno
from inferno.neural import LinearDense, LinearDirect, LIF, ALIF, DeltaCurrent, SingleExponentialCurrent, Serial, Biclique, RecurrentSerial

from mc.common import Tally, Guard
from mc.pool import run_shards

ID = "C17"
LEVEL = "model_checking"
DT = 1.0


def syn(kind):
    if kind == "delta":
        return DeltaCurrent.partialconstructor(spike_charge=DT)
    return SingleExponentialCurrent.partialconstructor(spike_charge=2.0, time_constant=2.0)


W1 = torch.tensor([[1.0, 2.0], [4.0, 1.0]])
W2 = torch.tensor([[2.0, 1.0], [1.0, 3.0]])
W3 = torch.tensor([[3.0, 0.0], [1.0, 2.0]])
WD = torch.tensor([2.0, 3.0])


def dense(B, W, skind="delta", delay=None):
    kw = {}
    if delay is not None:
        kw = dict(delay=delay, delay_init=lambda d: torch.tensor([[0.0, 1.0], [2.0, 1.0]]))
    return LinearDense((2,), (2,), DT, synapse=syn(skind), batch_size=B, weight_init=lambda w: W.clone(), **kw)


def direct(B, W):
    return LinearDirect((2,), DT, synapse=syn("delta"), batch_size=B, weight_init=lambda w: W.clone())


def lif(B, refrac=2.0):
    return LIF((2,), DT, rest_v=0.0, reset_v=-0.5, thresh_v=1.0, refrac_t=refrac, time_constant=2.0, batch_size=B)


def alif(B):
    return ALIF((2,), DT, rest_v=0.0, reset_v=-0.5, thresh_eq_v=1.0, refrac_t=1.0, tc_membrane=2.0, tc_adaptation=4.0,
                spike_increment=0.5, batch_size=B)


def histories(T):
    letters = list(itertools.product((0, 1), repeat=2))
    return list(itertools.product(letters, repeat=T))


def inputs_for(T):
    hs = histories(T)
    return hs, [torch.tensor([h[t] for h in hs], dtype=torch.bool) for t in range(T)]


COMBINES = {
    "sum": lambda ts: sum(ts),
    "mean": lambda ts: sum(ts) / len(ts),
    "prod": lambda ts: ts[0] * ts[1],
    "min": lambda ts: torch.minimum(ts[0], ts[1]),
    "max": lambda ts: torch.maximum(ts[0], ts[1]),
}


def custom_combine(tensors, **kwargs):
    vals = list(tensors.values())
    return vals[0] - 0.5 * vals[1]


def cmp(tally, key, case, got, exp, what):
    if tuple(got.shape) != tuple(exp.shape):
        tally.violation(f"{key}:shape", case, f"{what}: shape {tuple(got.shape)}, expected {tuple(exp.shape)}", list(exp.shape), list(got.shape))
        return False
    if not torch.equal(got, exp):
        bad = (got != exp).reshape(got.shape[0], -1).any(1).nonzero().reshape(-1).tolist()
        tally.violation(f"{key}:value", case, f"{what}: differs from the manual composition for batch samples (histories) {bad[:5]}")
        return False
    return True


def serial_shard(variant, T):
    tally = Tally()
    hs, xs = inputs_for(T)
    B = len(hs)
    skind, delay, transform, neuron_kind = variant[:4]
    named = len(variant) > 4 and variant[4]  # distinct custom names for the connection and the neuron, keyword arguments routed to the neuron
    tf = (lambda x, **kw: x * 2.0) if transform else None
    def mk_conn():
        c = dense(B, W1, skind, delay)
        if transform:  # the transform variants also carry an updater (trainable connection)
            c.updater = c.defaultupdater()
        return c

    if neuron_kind == "exact":
        from inferno.extra import ExactNeuron
        mk_neu = lambda: ExactNeuron((2,), DT, rest_v=0.0, thresh_v=1.0, batch_size=B)
    else:
        mk_neu = (lambda: lif(B)) if neuron_kind == "lif" else (lambda: alif(B))
    names = dict(connection_name="conn", neuron_name="neur") if named else {}

    def nkw(x):  # keyword arguments for the neuron at a step whose input is x
        if not named:
            return {}
        return {"override": x.clone()} if neuron_kind == "exact" else {"refrac_lock": False}

    case = {"layer": "Serial", "synapse": skind, "delay": delay, "transform": transform, "neuron": neuron_kind, "T": T, "custom_names_and_neuron_kwargs": bool(named)}
    try:
        layer = Serial(mk_conn(), mk_neu(), transform=tf, **names)
    except Exception as ex:
        tally.violation(f"exception:construct:Serial:{type(ex).__name__}", case, repr(ex))
        return tally
    c, n = mk_conn(), mk_neu()
    ok = True
    fresh_out = []
    for t in range(T):
        tally.add("steps")
        try:
            xin = xs[t].clone()
            g = Guard(xin)
            out, inter = layer(xin, capture_intermediate=True, **({"neuron_kwargs": nkw(xs[t])} if named else {}))
            g.release(tally, "input-mutated:Serial", {**case, "step": t})
        except Exception as ex:
            tally.violation(f"exception:forward:Serial:{type(ex).__name__}", {**case, "step": t}, repr(ex))
            return tally
        co = c(xs[t])
        exp = n((co * 2.0) if transform else co, **nkw(xs[t]))
        ok &= cmp(tally, "serial:output", {**case, "step": t}, out, exp, "layer output")
        ok &= cmp(tally, "serial:intermediate", {**case, "step": t}, inter, co, "captured connection output")
        if tuple(out.shape) != tuple(layer.neuron.batchedshape):
            tally.violation("serial:output-not-batchedshape", {**case, "step": t}, f"{tuple(out.shape)} vs {layer.neuron.batchedshape}")
        fresh_out.append(out.clone())
    clear_replay(tally, case, lambda: Serial(mk_conn(), mk_neu(), transform=tf, **names),
                 (lambda L, x: L(x, neuron_kwargs=nkw(x))) if named else (lambda L, x: L(x)), xs, T, fresh_out if ok else None)
    tally.mark("nontrivial", ("serial", variant))
    tally.add("histories", B)
    return tally


def clear_replay(tally, case, mk_layer, step, xs, T, fresh_out):
    """clear() at every position p, then replay from the start: outputs equal those of a fresh layer; parameters kept"""
    for p in range(0, T + 1):
        tally.add("clear_positions")
        try:
            L = mk_layer()
        except Exception as ex:
            return
        L.eval()  # adaptation frozen so that 'replay reproduces' is well defined; adaptations are checked as kept below
        ref = mk_layer()
        ref.eval()
        try:
            kept = []
            for t in range(p):
                o = step(L, xs[t])
                kept += [(x, x.clone()) for x in (o if isinstance(o, tuple) else (o,))]
            sd_before = {k: v.clone() for k, v in L.state_dict().items() if isinstance(v, torch.Tensor) and ("weight" in k or "bias" in k or "delay_" in k or "adaptation" in k)}
            L.clear()
        except Exception as ex:
            tally.violation(f"exception:clear:{case['layer']}:{type(ex).__name__}", {**case, "clear_after_steps": p}, f"clear() raised {type(ex).__name__}: {ex}", None, repr(ex))
            return
        # what earlier steps returned belongs to the caller: a later clear() must not reach into it
        if any(not torch.equal(x, c) for x, c in kept):
            tally.violation(f"clear-changed-returned-output:{case['layer']}", {**case, "clear_after_steps": p}, "clear() changed a tensor that an earlier step had returned")
        sd_after = {k: v for k, v in L.state_dict().items() if k in sd_before}
        for k in sd_before:
            if not torch.equal(sd_before[k], sd_after[k]):
                tally.violation(f"clear-changed-parameter:{case['layer']}", {**case, "clear_after_steps": p, "key": k}, f"clear() changed {k}")
        for t in range(T):
            try:
                a = step(L, xs[t])
                b = step(ref, xs[t])
            except Exception as ex:
                tally.violation(f"exception:after-clear:{case['layer']}:{type(ex).__name__}", {**case, "clear_after_steps": p, "step": t}, repr(ex))
                return
            a = a if isinstance(a, tuple) else (a,)
            b = b if isinstance(b, tuple) else (b,)
            if any(x.shape != y.shape or not torch.equal(x, y) for x, y in zip(a, b)):
                tally.violation(f"clear-not-fresh:{case['layer']}", {**case, "clear_after_steps": p, "step": t},
                                f"after clear() at position {p}, replay step {t} differs from a fresh layer")
                return


def serial_md_shard(skind, T, f64=False):
    """multi-dimensional populations: Serial(LinearDense((1,2) -> (2,1)), LIF((2,1))) equals, element for element, the flat layer
    on the same histories, its output has the neuron group's batched shape, and clear() restores it"""
    tally = Tally()
    hs, xs = inputs_for(T)
    B = len(hs)
    case = {"layer": "Serial[multi-dimensional]" + ("[float64]" if f64 else ""), "inshape": [1, 2], "outshape": [2, 1], "synapse": skind, "T": T, "float64": f64}

    def mk():
        c = LinearDense((1, 2), (2, 1), DT, synapse=syn(skind), batch_size=B, weight_init=lambda w: W1.clone(), delay=2.0,
                        delay_init=lambda d: torch.tensor([[0.0, 1.0], [2.0, 1.0]]))
        L = Serial(c, LIF((2, 1), DT, rest_v=0.0, reset_v=-0.5, thresh_v=1.0, refrac_t=2.0, time_constant=2.0, batch_size=B))
        return L.to(torch.float64) if f64 else L

    if f64:
        # a layer converted with .to(float64): clear() must leave every floating-point state tensor float64
        try:
            L = mk()
            for t in range(2):
                L(xs[t].reshape(B, 1, 2).clone())
            L.clear()
            bad = sorted(k for k, v in L.state_dict().items() if isinstance(v, torch.Tensor) and v.is_floating_point() and v.dtype != torch.float64)
            bad += [n for n, v in (("neuron.voltage", L.neuron.voltage), ("neuron.refrac", L.neuron.refrac)) if v.dtype != torch.float64]
            if bad:
                tally.violation("clear-changed-dtype:Serial[float64]", case, f"after clear() these state tensors are no longer float64: {bad}", "torch.float64", bad)
        except Exception as ex:
            tally.violation(f"exception:serial-md:f64:{type(ex).__name__}", case, repr(ex))

    try:
        layer, flat = mk(), Serial(dense(B, W1, skind, 2.0), lif(B))
        if f64:
            flat = flat.to(torch.float64)
        for t in range(T):
            tally.add("steps")
            out = layer(xs[t].reshape(B, 1, 2).clone())
            ref = flat(xs[t].clone())
            if tuple(out.shape) != (B, 2, 1) or tuple(out.shape) != tuple(layer.neuron.batchedshape):
                tally.violation("serial-md:output-shape", {**case, "step": t}, f"output shape {tuple(out.shape)}, neuron batched shape {tuple(layer.neuron.batchedshape)}")
                return tally
            if not torch.equal(out.reshape(B, 2), ref):
                tally.violation("serial-md:output", {**case, "step": t}, "output differs from the flat layer on the same inputs")
                return tally
    except Exception as ex:
        tally.violation(f"exception:serial-md:{type(ex).__name__}", case, repr(ex))
        return tally
    clear_replay(tally, case, mk, lambda L, x: L(x.reshape(B, 1, 2).clone()), xs, T, None)
    tally.mark("nontrivial", ("serial-md", skind, f64))
    tally.add("histories", B)
    return tally


def biclique_shard(combine, transforms, T):
    tally = Tally()
    hs, xs = inputs_for(T)
    B = len(hs)
    case = {"layer": "Biclique", "combine": combine, "transforms": transforms, "T": T}
    # every connection and every neuron group gets its OWN transform (all different), so a transform bound to the wrong
    # group is visible
    pin_a = (lambda x: x * 2.0) if transforms else None
    pin_b = (lambda x: x - 0.125) if transforms else None
    pout1 = (lambda x: x * 0.5) if transforms else None
    pout2 = (lambda x: x + 0.25) if transforms else None
    comb = custom_combine if combine == "custom" else combine

    def mk():
        conns = [("a", dense(B, W1)) + ((pin_a,) if transforms else ()), ("b", direct(B, WD)) + ((pin_b,) if transforms else ())]
        neus = [("n1", lif(B)) + ((pout1,) if transforms else ()), ("n2", alif(B)) + ((pout2,) if transforms else ())]
        return Biclique(conns, neus, combine=comb)

    try:
        layer = mk()
    except Exception as ex:
        tally.violation(f"exception:construct:Biclique:{type(ex).__name__}", case, repr(ex))
        return tally
    ca, cb, n1, n2 = dense(B, W1), direct(B, WD), lif(B), alif(B)
    ok = True
    fresh = []
    for t in range(T):
        tally.add("steps")
        xa, xb = xs[t], ~xs[t]
        try:
            out, inter = layer({"a": (xa,), "b": (xb,)}, capture_intermediate=True)
        except Exception as ex:
            tally.violation(f"exception:forward:Biclique:{combine}:{type(ex).__name__}", {**case, "step": t}, repr(ex))
            return tally
        oa, ob = ca(xa), cb(xb)
        ok &= cmp(tally, f"biclique:intermediate", {**case, "step": t, "connection": "a"}, inter["a"], oa, "captured output of connection a")
        ok &= cmp(tally, f"biclique:intermediate", {**case, "step": t, "connection": "b"}, inter["b"], ob, "captured output of connection b")
        if transforms:
            oa = oa * 2.0
            ob = ob - 0.125
        if combine == "custom":
            z = oa - 0.5 * ob
        else:
            z = COMBINES[combine]([oa, ob])
        e1 = n1(z * 0.5 if transforms else z)
        e2 = n2(z + 0.25 if transforms else z)
        for nm, exp, neu in (("n1", e1, layer.get_neuron("n1")), ("n2", e2, layer.get_neuron("n2"))):
            ok &= cmp(tally, f"biclique:{combine}:output", {**case, "step": t, "neuron": nm}, out[nm], exp, f"output of {nm}")
            if tuple(out[nm].shape) != tuple(neu.batchedshape):
                tally.violation(f"biclique:{combine}:output-not-batchedshape", {**case, "step": t, "neuron": nm}, f"{tuple(out[nm].shape)} vs batched shape {neu.batchedshape}")
                ok = False
        if not ok:
            break
        fresh.append(out)
    if ok:
        clear_replay(tally, case, mk, lambda L, x: tuple(L({"a": (x,), "b": (~x,)}).values()), xs, T, fresh)
    tally.mark("nontrivial", ("biclique", combine, transforms))
    tally.add("histories", B)
    return tally


def biclique_unequal_shard(nc, nn_, skind, T, updaters=False):
    """Biclique with different numbers of connections and neuron groups (nc -> nn_), stateful synapses (exponential / delayed):
    every group's output equals the neuron applied to the sum of all connection outputs, and clear() at every position of every
    history restores every connection, synapse and neuron group (replay equals a fresh layer)."""
    tally = Tally()
    hs, xs = inputs_for(T)
    B = len(hs)
    Ws = [W1, W2, W3][:nc]
    case = {"layer": f"Biclique[{nc}->{nn_}]" + ("+updaters" if updaters else ""), "connections": nc, "neuron_groups": nn_, "synapse": skind, "T": T,
            "updaters_attached": updaters}
    delay = 2.0 if skind == "delta-delayed" else None
    sk = "delta" if skind == "delta-delayed" else skind

    def mk():
        conns = [(f"c{i}", dense(B, Ws[i], sk, delay)) for i in range(nc)]
        if updaters:  # trainable connections (an updater attached): clear() still resets their synapses
            for _, c in conns:
                c.updater = c.defaultupdater()
        neus = [(f"n{j}", lif(B, 1.0 + j)) for j in range(nn_)]
        return Biclique(conns, neus, combine="sum")

    def step(L, x):
        out = L({f"c{i}": ((x if i % 2 == 0 else ~x),) for i in range(nc)})
        return tuple(out[f"n{j}"] for j in range(nn_)) + tuple(L.get_neuron(f"n{j}").voltage.clone() for j in range(nn_))

    try:
        layer = mk()
        manual_c = [dense(B, Ws[i], sk, delay) for i in range(nc)]
        manual_n = [lif(B, 1.0 + j) for j in range(nn_)]
    except Exception as ex:
        tally.violation(f"exception:construct:Biclique:{type(ex).__name__}", case, repr(ex))
        return tally
    ok = True
    for t in range(T):
        tally.add("steps")
        try:
            out = step(layer, xs[t])
        except Exception as ex:
            tally.violation(f"exception:forward:Biclique[{nc}->{nn_}]:{type(ex).__name__}", {**case, "step": t}, repr(ex))
            return tally
        z = sum(manual_c[i](xs[t] if i % 2 == 0 else ~xs[t]) for i in range(nc))
        for j in range(nn_):
            ok &= cmp(tally, f"biclique-unequal:output", {**case, "step": t, "neuron": f"n{j}"}, out[j], manual_n[j](z), f"output of n{j}")
        if not ok:
            break
    if ok:
        clear_replay(tally, case, mk, step, xs, T, None)
    tally.mark("nontrivial", ("biclique-unequal", nc, nn_, skind, updaters))
    tally.add("histories", B)
    return tally


W2U = torch.tensor([[2.0, 1.0], [1.0, 3.0], [1.0, 1.0]])  # lateral 2 -> 3
W3U = torch.tensor([[3.0, 0.0, 1.0], [1.0, 2.0, 0.0]])  # feedback 3 -> 2


def rdense(B, W):
    return LinearDense((W.shape[1],), (W.shape[0],), DT, synapse=syn("delta"), batch_size=B, weight_init=lambda w: W.clone())


def rlif(B, n, refrac):
    return LIF((n,), DT, rest_v=0.0, reset_v=-0.5, thresh_v=1.0, refrac_t=refrac, time_constant=2.0, batch_size=B)


def recurrent_shard(variant, T):
    tally = Tally()
    hs, xs = inputs_for(T)
    B = len(hs)
    trainable, transforms = variant[:2]
    unequal = len(variant) > 2 and variant[2]  # feedback group of 3 neurons behind a feed-forward group of 2
    intr = len(variant) > 3 and variant[3]  # input-side transforms on the two recurrent paths, and non-default component names
    only = variant[4] if len(variant) > 4 else None  # "lateral" / "feedback": only that one of the two input transforms is given
    case = {"layer": "RecurrentSerial", "trainable_feedback": trainable, "transforms": transforms, "T": T, "group_sizes": [2, 3 if unequal else 2],
            "in_transforms_and_names": bool(intr), "only_in_transform": only}
    nfbsz = 3 if unequal else 2
    Wl, Wf = (W2U, W3U) if unequal else (W2, W3)
    kw = {}
    if transforms:
        kw = dict(feedfwd_out_transform=lambda x: x * 2.0, feedback_out_transform=lambda x: -x, lateral_out_transform=lambda x: x + 0.5)

    names = {}
    if intr:
        # lateral path sees the inverted feed-forward spikes, feedback path the feedback spikes rolled by one neuron
        kw = dict(kw, feedfwd_connection_name="cin", lateral_connection_name="clat", feedback_connection_name="cfb",
                  feedfwd_neuron_name="nin", feedback_neuron_name="nfb")
        names = {"feedfwd": "cin", "lateral": "clat", "feedback": "cfb"}
        if only in (None, "lateral"):
            kw["lateral_in_transform"] = lambda s: (~s,)
        if only in (None, "feedback"):
            kw["feedback_in_transform"] = lambda s: (s.roll(1, -1),)
    lat_tr = intr and only in (None, "lateral")
    fb_tr = intr and only in (None, "feedback")

    def mk():
        cs = [rdense(B, W1), rdense(B, Wl), rdense(B, Wf)]
        if trainable:
            for c in cs:
                c.updater = c.defaultupdater()
        return RecurrentSerial(cs[0], cs[1], cs[2], rlif(B, 2, 1.0), rlif(B, nfbsz, 2.0), trainable_feedback=trainable, **kw)

    try:
        layer = mk()
    except Exception as ex:
        tally.violation(f"exception:construct:RecurrentSerial:{type(ex).__name__}", case, repr(ex))
        return tally
    ff, lat, fb, nff, nfb = rdense(B, W1), rdense(B, Wl), rdense(B, Wf), rlif(B, 2, 1.0), rlif(B, nfbsz, 2.0)
    prev_fb = torch.zeros(B, nfbsz, dtype=torch.bool)
    ok = True
    for t in range(T):
        tally.add("steps")
        try:
            xin = xs[t].clone()
            g = Guard(xin)
            (o_ff, o_fb), inter = layer(xin, capture_intermediate=True)
            g.release(tally, "input-mutated:RecurrentSerial", {**case, "step": t})
        except Exception as ex:
            tally.violation(f"exception:forward:RecurrentSerial:{type(ex).__name__}", {**case, "step": t}, repr(ex))
            return tally
        a, b = ff(xs[t]), fb(prev_fb.roll(1, -1) if fb_tr else prev_fb)
        try:
            i_ff, i_fb, i_lat = inter[names.get("feedfwd", "feedfwd")], inter[names.get("feedback", "feedback")], inter[names.get("lateral", "lateral")]
        except KeyError as ex:
            tally.violation("recurrent:intermediate:names", {**case, "step": t}, f"captured outputs are keyed {sorted(inter)}, missing {ex}")
            return tally
        ok &= cmp(tally, "recurrent:intermediate", {**case, "step": t, "connection": "feedfwd"}, i_ff, a, "captured feed-forward connection output")
        ok &= cmp(tally, "recurrent:intermediate", {**case, "step": t, "connection": "feedback"}, i_fb, b, "captured feedback connection output")
        drive = (a * 2.0 - b) if transforms else (a + b)
        s_ff = nff(drive)
        l = lat(~s_ff if lat_tr else s_ff)
        ok &= cmp(tally, "recurrent:intermediate", {**case, "step": t, "connection": "lateral"}, i_lat, l, "captured lateral connection output")
        s_fb = nfb(l + 0.5 if transforms else l)
        prev_fb = s_fb
        ok &= cmp(tally, "recurrent:feedfwd-output", {**case, "step": t}, o_ff, s_ff, "feed-forward spikes")
        ok &= cmp(tally, "recurrent:feedback-output", {**case, "step": t}, o_fb, s_fb, "feedback spikes")
        if not ok:
            break
    if ok:
        clear_replay(tally, case, mk, lambda L, x: L(x), xs, T, True)
    tally.mark("nontrivial", ("recurrent", variant))
    tally.add("histories", B)
    return tally


def neuron_clear_shard(cname, T):
    """Serial(dense, <every shipped neuron class>) with a refractory period of 3 steps: clear() at every position of every input
    history, then the replay must equal a freshly built layer (voltage, refractory time and spikes all back to initial)."""
    from checks.c03_neurons import HP, CLS
    tally = Tally()
    hs, xs = inputs_for(T)
    B = len(hs)
    case = {"layer": f"Serial[{cname}]", "neuron": cname, "refrac_t": 3.0, "T": T}

    from checks.c03_neurons import ADAPT_THRESH, ADAPT_CURR, get_adapt, set_adapt

    def mk():
        n = CLS[cname]((2,), DT, refrac_t=3.0, batch_size=B, **HP[cname][0])
        if cname in ADAPT_THRESH + ADAPT_CURR:
            # a learned (non-zero) adaptation: clear() keeps it, so a cleared layer replays like a fresh one carrying the same adaptation
            a = get_adapt(n, cname)
            set_adapt(n, cname, torch.full_like(a, 0.125) * (1 + torch.arange(a.shape[-1], dtype=a.dtype)))
        return Serial(rdense(B, W1 * 3.0), n)

    try:
        L = mk()
        L.eval()
        nspk = 0
        for t in range(T):
            tally.add("steps")
            nspk += int(L(xs[t]).sum())
    except Exception as ex:
        tally.violation(f"exception:forward:Serial[{cname}]:{type(ex).__name__}", case, repr(ex))
        return tally
    if nspk:
        tally.mark("nontrivial", ("neuron-clear", cname))
    tally.add("spikes_before_clear", nspk)
    clear_replay(tally, case, mk, lambda L, x: (L(x), L.neuron.voltage.clone(), L.neuron.refrac.clone()), xs, T, None)
    tally.add("histories", B)
    return tally


def run(rep):
    quick = rep.tier == "quick"
    T = 4 if quick else 6
    jobs = []
    for skind in ("delta", "exp"):
        for delay in (None, 2.0):
            for transform in (False, True):
                for nk in ("lif", "alif"):
                    jobs.append((serial_shard, ((skind, delay, transform, nk), T)))
    for nk in ("lif", "alif", "exact"):
        for transform in (False, True):
            jobs.append((serial_shard, (("delta", None, transform, nk, True), T)))
    jobs.append((serial_shard, (("delta", None, False, "exact"), T)))
    for combine in ("sum", "mean", "prod", "min", "max", "custom"):
        for tr in (False, True):
            jobs.append((biclique_shard, (combine, tr, T)))
    for skind in ("delta", "exp"):
        jobs.append((serial_md_shard, (skind, T)))
        jobs.append((serial_md_shard, (skind, T, True)))
    for nc, nn_ in ((2, 1), (1, 2), (3, 1), (3, 2), (1, 1)):
        for skind in ("exp", "delta-delayed"):
            jobs.append((biclique_unequal_shard, (nc, nn_, skind, T)))
            if (nc, nn_) in ((2, 1), (1, 1)):
                jobs.append((biclique_unequal_shard, (nc, nn_, skind, T, True)))
    for trainable in (False, True):
        for tr in (False, True):
            jobs.append((recurrent_shard, ((trainable, tr), T)))
            jobs.append((recurrent_shard, ((trainable, tr, True), T)))
            jobs.append((recurrent_shard, ((trainable, tr, tr, True), T)))
            if not trainable:
                jobs.append((recurrent_shard, ((trainable, tr, False, True, "lateral"), T)))
                jobs.append((recurrent_shard, ((trainable, tr, False, True, "feedback"), T)))
    from checks.c03_neurons import CLS as NEURON_CLS
    for cname in NEURON_CLS:
        jobs.append((neuron_clear_shard, (cname, T)))
    tally = run_shards(jobs, seed=rep.seed)
    rep.tally.merge(tally)
    c = tally.counts
    rep.assumptions += [
        "all boolean input histories (in-size 2) of length T ride the batch dimension: sample b = history b; comparisons are bitwise",
        "replay-after-clear is compared in eval mode (adaptations frozen); adaptations and parameters are separately checked as kept",
    ]
    cov = {
        "states": c.get("steps", 0) + c.get("clear_positions", 0),
        "transitions": c.get("steps", 0) + c.get("clear_positions", 0) * T,
        "traces_validated_against_impl": c.get("histories", 0),
        "topologies": len(jobs),
        "history_length": T,
        "exhaustive": True,
        "evaluations": c.get("steps", 0) + c.get("clear_positions", 0),
        "distinct_nontrivial": len(tally.sets.get("nontrivial", ())),
        "rule": "every boolean input history of length T (as batch) x every layer topology / combine mode / transform choice x every clear "
                "position; non-trivial = distinct topologies",
    }
    return rep.finish(cov, floors={"transitions": 150, "distinct_nontrivial": 68})


def replay(case):
    T = case["T"]
    if case["layer"] == "Serial":
        t = serial_shard((case["synapse"], case["delay"], case["transform"], case["neuron"]), T)
    elif case["layer"] == "Biclique":
        t = biclique_shard(case["combine"], case["transforms"], T)
    else:
        t = recurrent_shard((case["trainable_feedback"], case["transforms"]), T)
    return {"violations": [[v["key"], v["message"]] for v in t.violations]}
