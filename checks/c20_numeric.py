"""C20 - numerical helpers are self-consistent (E3 sweeps).

Finite exhaustive parts: extrap->interp inverse law on a dyadic grid; interp_linear between brackets;
ALL spike rasters of T<=6 x 2 trains re-integrated from isi; Victor-Purpura over all pairs/triples of
spike-time subsets of {0,1,2,3,5} with <=3 spikes and costs {0,.25,1,4,inf}, with a brute-force
matching reference. Grid parts (weakest fit): distribution identities on parameter grids.
"""

from __future__ import annotations

import itertools
import math

import torch

import inferno
import inferno.functional as fn
from inferno.stats import Poisson, Normal, LogNormal

from mc.common import Tally, Guard
from mc.pool import run_shards

ID = "C20"
LEVEL = "exploration"

TAU, RATE = 2.0, 0.5
INTERPS = {
    "nearest": (fn.interp_nearest, {}), "previous": (fn.interp_previous, {}), "next": (fn.interp_next, {}),
    "linear": (fn.interp_linear, {}), "expdecay": (fn.interp_expdecay, {"time_constant": TAU}),
    "expratedecay": (fn.interp_expratedecay, {"rate_constant": RATE}),
}
EXTRAPS = {
    "previous": (fn.extrap_previous, {}), "next": (fn.extrap_next, {}), "neighbors": (fn.extrap_neighbors, {}),
    "nearest": (fn.extrap_nearest, {}), "linear_forward": (fn.extrap_linear_forward, {}),
    "linear_backward": (fn.extrap_linear_backward, {}), "expdecay": (fn.extrap_expdecay, {"time_constant": TAU}),
    "expratedecay": (fn.extrap_expratedecay, {"rate_constant": RATE}),
    # the documented `adjust` hook f: the anchored bracket end becomes f(D); the inverse law must survive it
    "linear_forward+adjust": (fn.extrap_linear_forward, {"adjust": lambda d: d * 0.5 + 1.0}),
    "linear_backward+adjust": (fn.extrap_linear_backward, {"adjust": lambda d: d * 0.5 + 1.0}),
}
PAIRS = [("previous", "previous"), ("next", "next"), ("nearest", "nearest"), ("neighbors", "nearest"),
         ("neighbors", "previous"), ("neighbors", "next"), ("neighbors", "linear"), ("linear_forward", "linear"),
         ("linear_backward", "linear"), ("linear_forward+adjust", "linear"), ("linear_backward+adjust", "linear"), ("expdecay", "expdecay"), ("expratedecay", "expratedecay")]


def interp_shard(tier):
    tally = Tally()
    xs = (-2.0, 0.0, 0.5, 3.0)
    brackets = (-1.0, 0.0, 2.0, 4.0)
    for dt in (1.0, 0.5):
        fracs = [i / 8 for i in range(9)] if tier != "quick" else [i / 4 for i in range(5)]
        for (en, inn) in PAIRS:
            efn, ekw = EXTRAPS[en]
            ifn, ikw = INTERPS[inn]
            for fr in fracs:
                t = dt * fr
                # degenerate ends: a line through one point has no slope
                if en.startswith("linear_forward") and fr == 0:
                    continue
                if en.startswith("linear_backward") and fr == 1:
                    continue
                for x, pv, nx in itertools.product(xs, brackets, brackets):
                    tally.add("evaluations")
                    T = lambda v: torch.tensor([v, v])
                    ea = (T(x), T(t), T(pv), T(nx))
                    g = Guard(*ea)
                    p2, n2 = efn(*ea, dt, **ekw)
                    if g.mutated():
                        tally.violation(f"input-mutated:extrap:{en}", {"dt": dt, "extrap": en, "sample": x, "sample_at": t, "prev": pv, "next": nx},
                                        "the extrapolation modified one of its argument tensors in place")
                    ia = (p2.clone(), n2.clone(), T(t))
                    g = Guard(*ia)
                    back = ifn(*ia, dt, **ikw).tolist()
                    if g.mutated():
                        tally.violation(f"input-mutated:interp:{inn}", {"dt": dt, "interp": inn, "prev": p2.tolist(), "next": n2.tolist(), "sample_at": t},
                                        "the interpolation modified one of its argument tensors in place")
                    if "adjust" in ekw:  # documented anchor: X(0) = f(D(0)) resp. X(dt) = f(D(dt))
                        anchor, want = (p2, ekw["adjust"](T(pv))) if en.startswith("linear_forward") else (n2, ekw["adjust"](T(nx)))
                        if anchor.tolist() != want.tolist():
                            tally.violation(f"adjust-anchor:{en}", {"dt": dt, "extrap": en, "interp": inn, "sample": x, "sample_at": t, "prev": pv, "next": nx},
                                            f"anchored bracket end {anchor.tolist()}, documented f(D) = {want.tolist()}", want, anchor)
                    tally.mark("nontrivial", (dt, en, inn, fr, x, pv, nx))
                    if not all(abs(b - x) <= 1e-5 * max(1, abs(x)) for b in back):
                        tally.violation(f"inverse:{en}->{inn}", {"dt": dt, "extrap": en, "interp": inn, "sample": x, "sample_at": t,
                                                               "prev": pv, "next": nx}, f"interp(extrap(x={x})) = {back}", x, back)
        # interp_linear stays between the brackets and hits the ends
        for fr in [i / 16 for i in range(17)]:
            for pv, nx in itertools.product(brackets, brackets):
                tally.add("evaluations")
                r = float(fn.interp_linear(torch.tensor([pv]), torch.tensor([nx]), torch.tensor([dt * fr]), dt)[0])
                case = {"dt": dt, "prev": pv, "next": nx, "sample_at": dt * fr}
                if not (min(pv, nx) - 1e-6 <= r <= max(pv, nx) + 1e-6):
                    tally.violation("linear:outside-brackets", case, f"interp_linear = {r}", [pv, nx], r)
                if fr == 0 and r != pv:
                    tally.violation("linear:end0", case, f"interp_linear at 0 = {r}", pv, r)
                if fr == 1 and abs(r - nx) > 1e-6:
                    tally.violation("linear:end1", case, f"interp_linear at dt = {r}", nx, r)
                # direct closed form for the positional/mathematical kernels
        for name, (ifn, ikw) in INTERPS.items():
            for fr in [i / 8 for i in range(9)]:
                for pv, nx in itertools.product(brackets, brackets):
                    tally.add("evaluations")
                    r = float(ifn(torch.tensor([pv]), torch.tensor([nx]), torch.tensor([dt * fr]), dt, **ikw)[0])
                    el = dt * fr
                    exp = {"previous": pv, "next": nx, "nearest": nx if fr > 0.5 else pv, "linear": pv + (nx - pv) * fr,
                           "expdecay": pv * math.exp(-el / TAU), "expratedecay": pv * math.exp(-el * RATE)}[name]
                    if abs(r - exp) > 1e-5 * max(1, abs(exp)):
                        tally.violation(f"interp-formula:{name}", {"dt": dt, "prev": pv, "next": nx, "sample_at": el}, f"{name} = {r}, closed form {exp}", exp, r)
    # the selecting interpolations hand back the selected bracket value itself, whatever the other one holds (records use inf / nan
    # for "never observed": an unselected non-finite neighbour must not leak into the result)
    special = (0.0, 1.5, float("inf"), float("-inf"), float("nan"))
    for dt in (1.0, 0.5):
        for name in ("nearest", "previous", "next"):
            ifn, ikw = INTERPS[name]
            for fr in (0.0, 0.25, 0.5, 0.75, 1.0):
                for pv, nx in itertools.product(special, special):
                    tally.add("evaluations")
                    r = float(ifn(torch.tensor([pv]), torch.tensor([nx]), torch.tensor([dt * fr]), dt, **ikw)[0])
                    exp = {"previous": pv, "next": nx, "nearest": nx if fr > 0.5 else pv}[name]
                    if not (r == exp or (r != r and exp != exp)):
                        tally.violation(f"interp-select:{name}:non-finite-neighbour", {"dt": dt, "prev": str(pv), "next": str(nx), "sample_at": dt * fr},
                                        f"{name} = {r}, the selected bracket value is {exp}", str(exp), str(r))
                    if pv != nx:
                        tally.mark("nontrivial", ("select", dt, name, fr, str(pv), str(nx)))
    tally.sample({"part": "interp/extrap", "pairs": PAIRS[:3]})
    return tally


def isi_shard(T, tier):
    tally = Tally()
    # exactly one spike train, in every layout that holds one: (T,), (T,1) time-first, (1,T) time-last (incl. the empty train)
    for bits in itertools.product((0, 1), repeat=T):
        times = [float(i) for i, v in enumerate(bits) if v]
        exp = [b - a for a, b in zip(times, times[1:])]
        for label, arg, tf in (("(T,)", torch.tensor(bits, dtype=torch.bool), True), ("(T,1)", torch.tensor(bits, dtype=torch.bool).reshape(T, 1), True),
                               ("(1,T)", torch.tensor(bits, dtype=torch.bool).reshape(1, T), False)):
            tally.add("evaluations")
            case = {"T": T, "dt": 1.0, "single_train": list(bits), "layout": label, "time_first": tf}
            try:
                out = inferno.isi(arg, 1.0, time_first=tf)
            except Exception as ex:
                tally.violation(f"isi:single-train:exception:{type(ex).__name__}", case, f"isi raised {ex!r}", None, repr(ex))
                continue
            got = [v for v in out.reshape(-1).tolist() if v == v]
            if out.numel() != len(exp) or got != exp:
                tally.violation("isi:single-train", case, f"isi {out.reshape(-1).tolist()} (shape {tuple(out.shape)}), intervals {exp}", exp, out.reshape(-1).tolist())
            if len(times) >= 2:
                tally.mark("nontrivial", ("isi-single", bits, label))
    for dt in (1.0, 0.5):
        for bits in itertools.product((0, 1), repeat=2 * T):
            a, b = bits[:T], bits[T:]
            trains = [a, b]
            sp = torch.tensor(trains, dtype=torch.bool)  # (2, T) time last
            for time_first in (False, True):
                tally.add("evaluations")
                arg = sp.t().contiguous() if time_first else sp
                case = {"T": T, "dt": dt, "trains": [list(a), list(b)], "time_first": time_first}
                try:
                    out = inferno.isi(arg, dt, time_first=time_first)
                except Exception as ex:
                    tally.violation(f"isi:exception:{type(ex).__name__}", case, f"isi raised {ex!r}", None, repr(ex))
                    continue
                if time_first:
                    out = out.t()
                C = max(sum(a), sum(b))
                exp_len = max(C - 1, 0)
                if tuple(out.shape) != (2, exp_len):
                    tally.violation("isi:shape", case, f"isi shape {tuple(out.shape)} expected (2,{exp_len}) (time last)", [2, exp_len], list(out.shape))
                    continue
                if not out.dtype.is_floating_point:
                    tally.violation("isi:dtype", case, f"isi dtype {out.dtype}", "float", str(out.dtype))
                for r, tr in enumerate(trains):
                    times = [i * dt for i, v in enumerate(tr) if v]
                    row = out[r].tolist()
                    n = max(len(times) - 1, 0)
                    vals, pad = row[:n], row[n:]
                    if any(v == v for v in pad):
                        tally.violation("isi:padding-not-nan", case, f"train {r}: padding {pad}", "nan", pad)
                    elif times:
                        rec = [times[0]]
                        for v in vals:
                            rec.append(rec[-1] + v)
                        if rec != times:
                            tally.violation("isi:reintegration", case, f"train {r}: intervals {vals} re-integrate to {rec}, spikes at {times}", times, rec)
                if C >= 2:
                    tally.mark("nontrivial", (T, dt, a, b, time_first))
    tally.sample({"part": "isi", "T": T})
    return tally


def isi3d_shard(T):
    """rasters with two leading population dimensions (2 x 2 trains): the flattening/reshaping of the result must keep every
    train's intervals with that train"""
    tally = Tally()
    dt = 0.5
    for bits in itertools.product((0, 1), repeat=4 * T):
        trains = [bits[i * T:(i + 1) * T] for i in range(4)]
        sp = torch.tensor(trains, dtype=torch.bool).reshape(2, 2, T)
        for time_first in (False, True):
            tally.add("evaluations")
            arg = sp.permute(2, 0, 1).contiguous() if time_first else sp
            case = {"T": T, "dt": dt, "trains_2x2": [list(t) for t in trains], "time_first": time_first}
            try:
                out = inferno.isi(arg, dt, time_first=time_first)
            except Exception as ex:
                tally.violation(f"isi3d:exception:{type(ex).__name__}", case, repr(ex))
                continue
            if time_first:
                out = out.permute(1, 2, 0)
            C = max(sum(t) for t in trains)
            if tuple(out.shape) != (2, 2, max(C - 1, 0)):
                tally.violation("isi3d:shape", case, f"shape {tuple(out.shape)} expected (2,2,{max(C - 1, 0)})")
                continue
            for i, tr in enumerate(trains):
                times = [k * dt for k, v in enumerate(tr) if v]
                row = out[i // 2, i % 2].tolist()
                n = max(len(times) - 1, 0)
                exp = [times[k + 1] - times[k] for k in range(n)]
                if row[:n] != exp or any(v == v for v in row[n:]):
                    tally.violation("isi3d:intervals", case, f"train {i}: intervals {row}, expected {exp} then NaN padding", exp, row)
                    break
            if C >= 2:
                tally.mark("nontrivial", ("isi3d", T, bits, time_first))
    tally.sample({"part": "isi 2x2 trains", "T": T})
    return tally


def vp_ref(a, b, cost):
    """brute force over order-preserving partial matchings"""
    best = math.inf
    na, nb = len(a), len(b)
    for k in range(0, min(na, nb) + 1):
        for ia in itertools.combinations(range(na), k):
            for ib in itertools.combinations(range(nb), k):
                c = na + nb - 2 * k
                for i, j in zip(ia, ib):
                    d = abs(a[i] - b[j])
                    c += (cost * d) if d != 0 else 0.0
                best = min(best, c)
    return best


def vp_shard(tier):
    tally = Tally()
    base = (0.0, 1.0, 2.0, 3.0, 5.0)
    trains = [tuple(c) for k in range(0, 4) for c in itertools.combinations(base, k)]
    costs = (0.0, 0.25, 1.0, 4.0, float("inf"))
    D = {}
    # one tensor object per train, re-used for every pairing (the way a pairwise distance matrix is computed): the function must
    # leave its arguments alone
    TT = {a: torch.tensor(a) for a in trains}
    KEEP = {a: TT[a].clone() for a in trains}
    for c in costs:
        for a in trains:
            for b in trains:
                tally.add("evaluations")
                d = inferno.victor_purpura_pair_dist(TT[a], TT[b], c)
                D[(c, a, b)] = float(d.reshape(-1)[0])
                for z in (a, b):
                    if TT[z].shape != KEEP[z].shape or not torch.equal(TT[z], KEEP[z]):
                        tally.violation("vp:input-mutated", {"t0": a, "t1": b, "cost": "inf" if c == float("inf") else c},
                                        f"the call changed the caller's spike-time vector {KEEP[z].tolist()} to {TT[z].tolist()}", KEEP[z].tolist(), TT[z].tolist())
                        TT[z] = KEEP[z].clone()
    # integer-typed spike times (e.g. indices from torch.nonzero) give the same distances as float times, also for fractional costs
    for c in (0.25, 1.0):
        for a in trains:
            for b in trains:
                tally.add("evaluations")
                try:
                    d = inferno.victor_purpura_pair_dist(torch.tensor([int(v) for v in a], dtype=torch.int64), torch.tensor([int(v) for v in b], dtype=torch.int64), c)
                    x = float(d.reshape(-1)[0])
                except Exception as ex:
                    tally.violation(f"vp:int-times:exception:{type(ex).__name__}", {"t0": a, "t1": b, "cost": c}, repr(ex))
                    continue
                if abs(x - D[(c, a, b)]) > 1e-6:
                    tally.violation("vp:int-times", {"t0": a, "t1": b, "cost": c}, f"int64 spike times give {x}, float times {D[(c, a, b)]}", D[(c, a, b)], x)
    # a tensor of costs (including both documented limits 0 and inf) agrees with the scalar calls
    ct = torch.tensor(list(costs))
    for a in trains:
        for b in trains:
            tally.add("evaluations")
            d = inferno.victor_purpura_pair_dist(torch.tensor(a), torch.tensor(b), ct).tolist()
            exp = [D[(c, a, b)] for c in costs]
            lo, hi = abs(len(a) - len(b)), len(a) + len(b)
            for c, x, y in zip(costs, d, exp):
                cs = "inf" if c == float("inf") else c
                if not (x == x) or not (lo - 1e-6 <= x <= hi + 1e-6):
                    tally.violation("vp:cost-tensor:outside-cost-limits", {"t0": a, "t1": b, "cost": cs, "cost_tensor": [str(v) for v in costs]},
                                    f"d={x} for cost {cs} (tensor of costs) outside [{lo},{hi}]", [lo, hi], x)
                elif abs(x - y) > 1e-6:
                    # for cost=inf the scalar path documents n0+n1; the dynamic programme may legitimately return the true
                    # metric value (coincident spikes matched for free), which still lies within the limits
                    if c == float("inf"):
                        coincident = len(set(a) & set(b))
                        if abs(x - (hi - 2 * coincident)) > 1e-6 and abs(x - hi) > 1e-6:
                            tally.violation("vp:cost-tensor:inf", {"t0": a, "t1": b, "cost": cs}, f"d={x}, expected {hi} or {hi - 2 * coincident}", hi, x)
                    else:
                        tally.violation("vp:cost-tensor!=scalar", {"t0": a, "t1": b, "cost": cs}, f"{x} vs scalar-cost call {y}", y, x)
    for c in costs:
        cs = "inf" if c == float("inf") else c
        for a in trains:
            for b in trains:
                d = D[(c, a, b)]
                case = {"t0": a, "t1": b, "cost": cs}
                if abs(d - D[(c, b, a)]) > 1e-6:
                    tally.violation("vp:asymmetric", case, f"d(a,b)={d} d(b,a)={D[(c, b, a)]}", None, None)
                lo, hi = abs(len(a) - len(b)), len(a) + len(b)
                if not (lo - 1e-6 <= d <= hi + 1e-6):
                    tally.violation("vp:outside-cost-limits", case, f"d={d} outside [{lo},{hi}]", [lo, hi], d)
                if c != float("inf"):
                    ref = vp_ref(a, b, c)
                    if abs(d - ref) > 1e-5:
                        tally.violation("vp:value", case, f"d={d}, brute-force matching reference {ref}", ref, d)
                    if a == b and d != 0:
                        tally.violation("vp:identity", case, f"d(a,a)={d}", 0, d)
                else:
                    if d != hi:
                        tally.violation("vp:inf-limit", case, f"d={d} for infinite cost, documented {hi}", hi, d)
                if c == 0.0 and d != lo:
                    tally.violation("vp:zero-limit", case, f"d={d} for zero cost, documented {lo}", lo, d)
                if a != b:
                    tally.mark("nontrivial", (cs, a, b))
        for a, b, cc in itertools.product(trains, repeat=3):
            tally.add("evaluations")
            if D[(c, a, cc)] > D[(c, a, b)] + D[(c, b, cc)] + 1e-5:
                tally.violation("vp:triangle", {"t0": a, "t1": b, "t2": cc, "cost": cs},
                                f"d(a,c)={D[(c, a, cc)]} > d(a,b)+d(b,c)={D[(c, a, b)] + D[(c, b, cc)]}", None, None)
    # spike times far from zero that differ by a few microseconds (1000 ms +- 2^-8): distinct trains are at a positive distance,
    # the same value the brute-force matching gives - closeness relative to the magnitude of the times is not identity
    far = (1000.0, 1000.0 + 2.0 ** -8, 2000.0, 2000.0 + 2.0 ** -7, 3000.0)
    ftrains = [tuple(c) for k in range(1, 4) for c in itertools.combinations(far, k)]
    for c in (1.0, 100.0):
        for a in ftrains:
            for b in ftrains:
                tally.add("evaluations")
                case = {"t0": a, "t1": b, "cost": c, "part": "large spike times, small jitter"}
                try:
                    d = float(inferno.victor_purpura_pair_dist(torch.tensor(a), torch.tensor(b), c).reshape(-1)[0])
                except Exception as ex:
                    tally.violation(f"vp:far-times:exception:{type(ex).__name__}", case, repr(ex))
                    continue
                ref = vp_ref(a, b, c)
                if abs(d - ref) > 1e-4:
                    tally.violation("vp:far-times:value", case, f"d={d}, brute-force matching reference {ref}", ref, d)
                if a != b:
                    tally.mark("nontrivial", ("far", c, a, b))
    tally.sample({"part": "victor-purpura", "trains": len(trains), "costs": [str(c) for c in costs]})
    return tally


def dist_shard(tier):
    tally = Tally()
    f64 = torch.float64

    def G(fn, *a):
        """call a distribution function; tensor arguments must come back untouched (the caller owns them)"""
        g = Guard(*a)
        r = fn(*a)
        bad = g.mutated()
        if bad:
            i = bad[0]
            tally.violation(f"dist:input-mutated:{fn.__qualname__}", {"function": fn.__qualname__, "argument": i, "before": g.keep[i].tolist()},
                            f"{fn.__qualname__} modified its argument {i} in place: {g.keep[i].tolist()} -> {g.t[i].tolist()}", g.keep[i].tolist(), g.t[i].tolist())
        return r

    def chk(key, case, got, exp, tol):
        tally.add("evaluations")
        if not (abs(got - exp) <= tol * max(1.0, abs(exp))):
            tally.violation(key, case, f"{key}: got {got}, expected {exp}", exp, got)

    # ---- Poisson
    for rate in (0.0, 0.5, 1.0, 3.0, 10.0):  # rate 0 is a valid (degenerate) parameter: all mass at 0
        K = 80
        k = torch.arange(0, K, dtype=f64)
        case = {"dist": "Poisson", "rate": rate}
        try:
            r = torch.tensor(rate, dtype=f64)
            pmf = G(Poisson.pmf, k, r)
            logpmf = G(Poisson.logpmf, k, r)
            cdf = G(Poisson.cdf, k, r)
            logcdf = G(Poisson.logcdf, k, r)
        except Exception as ex:
            tally.violation(f"poisson:exception:{type(ex).__name__}", case, repr(ex))
            continue
        if rate == 0:
            ref = [1.0] + [0.0] * (K - 1)
        else:
            ref = [math.exp(-rate + i * math.log(rate) - math.lgamma(i + 1)) for i in range(K)]
        for i in range(0, K, 1):
            chk("poisson:pmf-value", {**case, "k": i}, float(pmf[i]), ref[i], 1e-6)
            chk("poisson:exp-logpmf", {**case, "k": i}, math.exp(float(logpmf[i])), float(pmf[i]), 1e-9)
            chk("poisson:cumsum-vs-cdf", {**case, "k": i}, float(pmf[: i + 1].sum()), float(cdf[i]), 1e-6)
            if float(cdf[i]) > 0:
                chk("poisson:logcdf", {**case, "k": i}, float(logcdf[i]), math.log(float(cdf[i])), 1e-9)
            tally.mark("nontrivial", ("poisson", rate, i))
        chk("poisson:total", case, float(pmf.sum()), 1.0, 1e-6)
        m = float((k * pmf).sum())
        v = float(((k - m) ** 2 * pmf).sum())
        chk("poisson:mean", case, m, float(G(Poisson.mean, r)), 1e-5)
        chk("poisson:variance", case, v, float(G(Poisson.variance, r)), 1e-5)
        # non-integer support uses floor for the cdf
        chk("poisson:cdf-floor", case, float(G(Poisson.cdf, torch.tensor(2.5, dtype=f64), r)), float(cdf[2]), 1e-9)
    # ---- Poisson on an integer-typed support with tensor-valued (non-integral) rates: same numbers as on the float support
    kf = torch.arange(0, 40, dtype=f64).unsqueeze(-1)
    ki = torch.arange(0, 40).unsqueeze(-1)
    rates = torch.tensor([0.7, 2.5, 6.25], dtype=f64)
    for nm, fn_ in (("pmf", Poisson.pmf), ("logpmf", Poisson.logpmf), ("cdf", Poisson.cdf), ("logcdf", Poisson.logcdf)):
        case = {"dist": "Poisson", "function": nm, "support": "int64 arange(40)", "rates": rates.tolist()}
        tally.add("evaluations")
        try:
            a, b = G(fn_, ki, rates.clone()), G(fn_, kf, rates.clone())
        except Exception as ex:
            tally.violation(f"poisson:int-support:exception:{type(ex).__name__}", case, repr(ex))
            continue
        if a.shape != b.shape or not torch.allclose(a.to(f64), b, rtol=1e-6, atol=1e-9):
            tally.violation(f"poisson:int-support:{nm}", case, f"{nm} on the integer support differs from the float support, e.g. at k=2: "
                            f"{a[2].tolist()} vs {b[2].tolist()}", b[2].tolist(), a[2].tolist())
        tally.mark("nontrivial", ("poisson-int-support", nm))
    # ---- Normal
    for loc in (-1.0, 0.0, 2.0):
        for scale in (0.25, 1.0, 2.0):
            case = {"dist": "Normal", "loc": loc, "scale": scale}
            n = 4001
            x = torch.linspace(loc - 10 * scale, loc + 10 * scale, n, dtype=f64)
            L, S = torch.tensor(loc, dtype=f64), torch.tensor(scale, dtype=f64)
            try:
                pdf, logpdf, cdf, logcdf = G(Normal.pdf, x, L, S), G(Normal.logpdf, x, L, S), G(Normal.cdf, x, L, S), G(Normal.logcdf, x, L, S)
            except Exception as ex:
                tally.violation(f"normal:exception:{type(ex).__name__}", case, repr(ex))
                continue
            cum = torch.cat((torch.zeros(1, dtype=f64), torch.cumulative_trapezoid(pdf, x)))
            for i in range(0, n, 100):
                xi = float(x[i])
                ref = math.exp(-0.5 * ((xi - loc) / scale) ** 2) / (scale * math.sqrt(2 * math.pi))
                chk("normal:pdf-value", {**case, "x": xi}, float(pdf[i]), ref, 1e-7)
                if float(pdf[i]) > 1e-300:
                    chk("normal:exp-logpdf", {**case, "x": xi}, math.exp(float(logpdf[i])), float(pdf[i]), 1e-9)
                chk("normal:integral-vs-cdf", {**case, "x": xi}, float(cum[i]), float(cdf[i]), 1e-5)
                if float(cdf[i]) > 1e-300:
                    chk("normal:logcdf", {**case, "x": xi}, float(logcdf[i]), math.log(float(cdf[i])), 1e-9)
                tally.mark("nontrivial", ("normal", loc, scale, i))
            chk("normal:total", case, float(torch.trapezoid(pdf, x)), 1.0, 1e-6)
            m = float(torch.trapezoid(x * pdf, x))
            v = float(torch.trapezoid((x - m) ** 2 * pdf, x))
            chk("normal:mean", case, m, float(G(Normal.mean, L)), 1e-5)
            chk("normal:variance", case, v, float(G(Normal.variance, S)), 1e-5)
            l2, s2 = G(Normal.params_mv, G(Normal.mean, L), G(Normal.variance, S))
            chk("normal:params_mv-loc", case, float(l2), loc, 1e-9)
            chk("normal:params_mv-scale", case, float(s2), scale, 1e-9)
    # ---- stated moments in float32 for small scales (closed forms evaluated in double with expm1; no cancellation allowed)
    for loc in (-1.0, 0.0, 2.0):
        for scale in (3e-2, 3e-3, 1e-3, 3e-4):
            tally.add("evaluations")
            case = {"dist": "LogNormal", "loc": loc, "scale": scale, "dtype": "float32"}
            try:
                L32, S32 = torch.tensor(loc), torch.tensor(scale)
                v = float(G(LogNormal.variance, L32, S32))
                m = float(G(LogNormal.mean, L32, S32))
            except Exception as ex:
                tally.violation(f"lognormal:f32:exception:{type(ex).__name__}", case, repr(ex))
                continue
            s2 = float(S32) ** 2
            ev = math.expm1(s2) * math.exp(2 * loc + s2)
            em = math.exp(loc + s2 / 2)
            if abs(v - ev) > 1e-3 * ev:
                tally.violation("lognormal:variance:float32-small-scale", case, f"variance {v}, closed form {ev} (relative error {abs(v - ev) / ev:.2e})", ev, v)
            if abs(m - em) > 1e-5 * em:
                tally.violation("lognormal:mean:float32-small-scale", case, f"mean {m}, closed form {em}", em, m)
            tally.mark("nontrivial", ("lognormal-f32", loc, scale))
    # ---- LogNormal (integrate in log space: x = e^y)
    for loc in (-1.0, 0.0, 2.0):
        for scale in (0.25, 0.5, 1.0):
            case = {"dist": "LogNormal", "loc": loc, "scale": scale}
            n = 8001
            y = torch.linspace(loc - 10 * scale, loc + 2 * scale * scale + 10 * scale, n, dtype=f64)
            x = torch.exp(y)
            L, S = torch.tensor(loc, dtype=f64), torch.tensor(scale, dtype=f64)
            try:
                pdf, logpdf, cdf = G(LogNormal.pdf, x, L, S), G(LogNormal.logpdf, x, L, S), G(LogNormal.cdf, x, L, S)
            except Exception as ex:
                tally.violation(f"lognormal:exception:{type(ex).__name__}", case, repr(ex))
                continue
            try:
                logcdf = G(LogNormal.logcdf, x, L, S)
            except RecursionError as ex:
                tally.violation("lognormal:logcdf:RecursionError", case, "LogNormal.logcdf recursed into itself", None, "RecursionError")
                logcdf = None
            except Exception as ex:
                tally.violation(f"lognormal:logcdf:{type(ex).__name__}", case, repr(ex))
                logcdf = None
            dens_y = pdf * x  # density w.r.t. y
            cum = torch.cat((torch.zeros(1, dtype=f64), torch.cumulative_trapezoid(dens_y, y)))
            for i in range(0, n, 200):
                xi = float(x[i])
                ref = math.exp(-0.5 * ((math.log(xi) - loc) / scale) ** 2) / (xi * scale * math.sqrt(2 * math.pi))
                chk("lognormal:pdf-value", {**case, "x": xi}, float(pdf[i]), ref, 1e-7)
                if float(pdf[i]) > 1e-300:
                    chk("lognormal:exp-logpdf", {**case, "x": xi}, math.exp(float(logpdf[i])), float(pdf[i]), 1e-9)
                chk("lognormal:integral-vs-cdf", {**case, "x": xi}, float(cum[i]), float(cdf[i]), 1e-5)
                if logcdf is not None and float(cdf[i]) > 1e-300:
                    chk("lognormal:logcdf", {**case, "x": xi}, float(logcdf[i]), math.log(float(cdf[i])), 1e-9)
                tally.mark("nontrivial", ("lognormal", loc, scale, i))
            chk("lognormal:total", case, float(torch.trapezoid(dens_y, y)), 1.0, 1e-6)
            m = float(torch.trapezoid(x * dens_y, y))
            v = float(torch.trapezoid((x - m) ** 2 * dens_y, y))
            chk("lognormal:mean", case, m, float(G(LogNormal.mean, L, S)), 1e-4)
            chk("lognormal:variance", case, v, float(G(LogNormal.variance, L, S)), 1e-3)
            l2, s2 = G(LogNormal.params_mv, G(LogNormal.mean, L, S), G(LogNormal.variance, L, S))
            chk("lognormal:params_mv-loc", case, float(l2), loc, 1e-6)
            chk("lognormal:params_mv-scale", case, float(s2), scale, 1e-6)
    tally.sample({"part": "distributions", "grids": "Poisson rate {0.5,1,3,10}; Normal/LogNormal loc x scale 3x3"})
    return tally


def run(rep):
    quick = rep.tier == "quick"
    jobs = [(interp_shard, (rep.tier,)), (vp_shard, (rep.tier,)), (dist_shard, (rep.tier,))]
    for T in ((1, 2, 3, 4, 5, 6) if quick else (1, 2, 3, 4, 5, 6, 7)):
        jobs.append((isi_shard, (T, rep.tier)))
    for T in ((1, 2, 3) if quick else (1, 2, 3, 4)):
        jobs.append((isi3d_shard, (T,)))
    tally = run_shards(jobs, seed=rep.seed)
    rep.tally.merge(tally)
    rep.assumptions += [
        "linear_forward at sample time 0 and linear_backward at sample time dt are excluded from the inverse law (a line "
        "through a single point has no slope; the pair is undefined there)",
        "Victor-Purpura identity d(a,a)=0 is checked for finite cost only (the docstring documents cost=inf as the total count)",
        "distribution identities are checked on parameter grids only - a finite grid says nothing between grid points",
    ]
    cov = {
        "evaluations": tally.counts.get("evaluations", 0),
        "distinct_nontrivial": len(tally.sets.get("nontrivial", ())),
        "exhaustive": True,
        "rule": "complete enumeration of: extrap/interp pairs x dyadic samples/brackets/sample times; all boolean rasters of 2 trains "
                "with T<=6(7) in both layouts; all pairs and triples of <=3-spike subsets of {0,1,2,3,5} x 5 costs; distribution "
                "parameter grids. non-trivial = distinct cases with at least one interval / differing trains / a probed support point",
    }
    return rep.finish(cov, floors={"evaluations": 50000, "distinct_nontrivial": 5000})


def replay(case):
    out = {"violations": []}
    if "trains" in case:
        sp = torch.tensor(case["trains"], dtype=torch.bool)
        arg = sp.t().contiguous() if case["time_first"] else sp
        out["isi"] = inferno.isi(arg, case["dt"], time_first=case["time_first"]).tolist()
    elif "t0" in case:
        c = float("inf") if case["cost"] == "inf" else case["cost"]
        out["d"] = inferno.victor_purpura_pair_dist(torch.tensor(case["t0"]), torch.tensor(case["t1"]), c).tolist()
    elif "extrap" in case:
        efn, ekw = EXTRAPS[case["extrap"]]
        ifn, ikw = INTERPS[case["interp"]]
        T = lambda v: torch.tensor([v])
        p2, n2 = efn(T(case["sample"]), T(case["sample_at"]), T(case["prev"]), T(case["next"]), case["dt"], **ekw)
        out["back"] = ifn(p2, n2, T(case["sample_at"]), case["dt"], **ikw).tolist()
    else:
        out["note"] = "distribution case: see message in the violation record"
    return out
