"""C05 - connections compute their documented linear map (E3 sweeps + E1 for the lateral mask).

A: dense/direct/lateral on ALL boolean inputs (in-size <= 4) and integer injected currents vs nested Python loops.
B: Conv2D over a complete geometry grid vs a naive loop cross-correlation (independent of unfold) and F.conv2d.
C: lateral mask under every sequence (depth bound) of weight/delay assignments and updater-applied updates.
D: reshaping helpers: like_input(like_synaptic(x)) == x on covered positions, receptive views reproduce forward.
"""

from __future__ import annotations

import itertools
import math

import torch
import torch.nn as nn
import torch.nn.functional as F

import inferno
from inferno.neural import LinearDense, LinearDirect, LinearLateral, Conv2D, DeltaCurrent, DeltaPlusCurrent, SingleExponentialCurrent

from mc.common import Tally, Guard
from mc.explore import explore
from mc.pool import run_shards

ID = "C05"
LEVEL = "exploration"
DT = 1.0


def syn(kind):
    if kind == "delta":
        return DeltaCurrent.partialconstructor(spike_charge=DT)  # current == spike
    if kind == "exp":
        return SingleExponentialCurrent.partialconstructor(spike_charge=2.0, time_constant=2.0)
    return DeltaPlusCurrent.partialconstructor(spike_charge=DT)


def stateful_shard(kind, tier):
    """The map is applied to the *synapse's current*, whatever the synapse: the connection's synapse is run next to a standalone
    synapse of the same class on the same inputs, for every boolean input history of length T and for graded float inputs
    (a non-zero value is a spike); at every step out == map(standalone.current) and connection.syncurrent == standalone.current,
    so a connection that scribbles on its synapse's state, or a synapse whose returned value differs from its current, shows."""
    tally = Tally()
    T = 3 if tier == "quick" else 4
    I = 2
    for skind in ("delta", "deltaplus", "exp"):
        for bias in (False, True):
            for graded, reassign in ((False, False), (True, False), (False, True)):
                # reassign: after the first step the weight (and bias) are replaced through the public setters, the way an updater
                # applies an update; every later output uses the new parameters
                for hist in itertools.product(list(itertools.product((0, 1), repeat=I)), repeat=T):
                    cfg = {"conn": kind, "synapse": skind, "bias": bias, "graded_float_input": graded, "history": [list(h) for h in hist],
                           "parameters_reassigned_after_step": 0 if reassign else None}
                    tally.add("evaluations")
                    try:
                        if kind == "dense":
                            W = int_weights(3, I)
                            c = LinearDense((I,), (3,), DT, synapse=syn(skind), bias=bias, batch_size=1, weight_init=lambda w, W=W: W.clone(),
                                            bias_init=lambda b: int_weights(b.numel(), off=100))
                        elif kind == "direct":
                            W = int_weights(I)
                            c = LinearDirect((I,), DT, synapse=syn(skind), bias=bias, batch_size=1, weight_init=lambda w, W=W: W.clone(),
                                             bias_init=lambda b: int_weights(b.numel(), off=100))
                        elif kind == "lateral":
                            W = int_weights(I, I)
                            c = LinearLateral((I,), DT, synapse=syn(skind), bias=bias, batch_size=1, weight_init=lambda w, W=W: W.clone(),
                                              bias_init=lambda b: int_weights(b.numel(), off=100))
                        else:
                            W = torch.tensor([[[[1.0, 3.0]]]])
                            c = Conv2D(1, I, 1, 1, DT, (1, 2), synapse=syn(skind), bias=bias, batch_size=1, weight_init=lambda w, W=W: W.clone(),
                                       bias_init=lambda b: int_weights(b.numel(), off=100))
                        inshape = (1, 1, I) if kind == "conv" else (I,)
                        ref = syn(skind)(inshape, DT, 0.0, 1)
                    except Exception as ex:
                        tally.violation(f"exception:construct:{kind}:{type(ex).__name__}", cfg, repr(ex))
                        break
                    Wm = c.weight.detach().to(torch.float64)
                    O = Wm.shape[0] if kind != "conv" else 1
                    bvec = (int_weights(O, off=100) if bias else torch.zeros(O)).to(torch.float64)
                    for t, bits in enumerate(hist):
                        if reassign and t == 1:
                            try:
                                c.weight = c.weight.detach() * 2.0 + 1.0
                                if bias:
                                    c.bias = c.bias.detach() + 50.0
                            except Exception as ex:
                                tally.violation(f"exception:set-weight:{kind}:{type(ex).__name__}", {**cfg, "step": t}, repr(ex))
                                break
                            Wm = Wm * 2.0 + 1.0
                            if bias:
                                bvec = bvec + 50.0
                        x = torch.tensor([list(bits)], dtype=torch.float32) * 2.5 if graded else torch.tensor([list(bits)], dtype=torch.bool)
                        x = x.reshape(1, *inshape)
                        args = (x,) if skind != "deltaplus" else (x, torch.full((1, *inshape), 0.25 * (t + 1)))
                        try:
                            out = c(*[a.clone() for a in args]).to(torch.float64).reshape(-1)
                            ref(*[a.clone() for a in args])
                            cur = ref.current.to(torch.float64).reshape(-1)
                            own = c.syncurrent.to(torch.float64).reshape(-1)
                        except Exception as ex:
                            tally.violation(f"exception:stateful:{kind}:{skind}:{type(ex).__name__}", {**cfg, "step": t}, repr(ex))
                            break
                        if kind == "dense":
                            exp = Wm @ cur + bvec
                        elif kind == "direct":
                            exp = Wm * cur + bvec
                        elif kind == "lateral":
                            exp = (Wm * (1 - torch.eye(I, dtype=torch.float64))) @ cur + bvec
                        else:
                            exp = (Wm.reshape(-1) * cur).sum().reshape(1) + bvec
                        if own.shape != cur.shape or not torch.allclose(own, cur, rtol=1e-6, atol=1e-6):
                            tally.violation(f"syncurrent-differs:{kind}:{skind}", {**cfg, "step": t}, f"step {t}: connection.syncurrent {own.tolist()} but a standalone "
                                            f"{skind} synapse on the same inputs holds {cur.tolist()}", cur.tolist(), own.tolist())
                            break
                        if out.shape != exp.shape or not torch.allclose(out, exp, rtol=1e-6, atol=1e-6):
                            tally.violation(f"stateful-map:{kind}:{skind}{':graded' if graded else ''}{':reassigned' if reassign else ''}", {**cfg, "step": t}, f"step {t}: output {out.tolist()} but the "
                                            f"documented map of the synapse's current {cur.tolist()} gives {exp.tolist()}", exp.tolist(), out.tolist())
                            break
                    if any(any(b) for b in hist):
                        tally.mark("nontrivial", ("stateful", kind, skind, bias, graded, reassign, hist))
    tally.sample({"part": "stateful synapses / graded inputs", "conn": kind, "T": T})
    return tally


def prod(shape):
    return math.prod(shape)


def int_weights(n, m=None, off=1):
    if m is None:
        return torch.tensor([float(off + 2 * i) for i in range(n)])
    return torch.tensor([[float(off + 3 * o + 7 * i * (o + 1)) for i in range(m)] for o in range(n)])


def linear_shard(kind, tier):
    tally = Tally()
    shapes = [(1,), (2,), (3,), (2, 2)]
    for B in (1, 2):
        for bias in (False, True):
            for skind in ("delta", "deltaplus"):
                combos = list(itertools.product(shapes, shapes)) if kind == "dense" else [(s, s) for s in shapes]
                for inshape, outshape in combos:
                    I, O = prod(inshape), prod(outshape)
                    cfg = {"conn": kind, "inshape": inshape, "outshape": outshape, "B": B, "bias": bias, "synapse": skind}
                    try:
                        if kind == "dense":
                            W = int_weights(O, I)
                            c = LinearDense(inshape, outshape, DT, synapse=syn(skind), bias=bias, batch_size=B,
                                            weight_init=lambda w, W=W: W.clone(), bias_init=lambda b: int_weights(b.numel(), off=100))
                        elif kind == "direct":
                            W = int_weights(I)
                            c = LinearDirect(inshape, DT, synapse=syn(skind), bias=bias, batch_size=B,
                                             weight_init=lambda w, W=W: W.clone(), bias_init=lambda b: int_weights(b.numel(), off=100))
                        else:
                            W = int_weights(I, I)
                            c = LinearLateral(inshape, DT, synapse=syn(skind), bias=bias, batch_size=B,
                                              weight_init=lambda w, W=W: W.clone(), bias_init=lambda b: int_weights(b.numel(), off=100))
                    except Exception as ex:
                        tally.violation(f"exception:construct:{kind}:{type(ex).__name__}", cfg, repr(ex))
                        continue
                    bvec = int_weights(O, off=100).tolist() if bias else [0.0] * O
                    Wl = W.tolist()
                    if tuple(c.inshape) != tuple(inshape) or tuple(c.outshape) != tuple(outshape) or tuple(c.batched_outshape) != (B, *outshape):
                        tally.violation(f"shape-attrs:{kind}", cfg, f"inshape {c.inshape} outshape {c.outshape} batched {c.batched_outshape}")
                    for bits in itertools.product((0, 1), repeat=I):
                        xs = [list(bits)]
                        if B == 2:
                            xs.append([1 - v for v in bits][::-1])
                        inj = None
                        if skind == "deltaplus":
                            inj = [[0.5 * (i + 1) - 1.25 * (b + 1) for i in range(I)] for b in range(B)]
                        x = torch.tensor(xs, dtype=torch.bool).reshape(B, *inshape)
                        args = (x,) if inj is None else (x, torch.tensor(inj).reshape(B, *inshape))
                        tally.add("evaluations")
                        try:
                            g = Guard(*args)
                            out = c(*args)
                            g.release(tally, f"input-mutated:{kind}", {**cfg, "input": xs})
                            x = torch.tensor(xs, dtype=torch.bool).reshape(B, *inshape)
                        except Exception as ex:
                            tally.violation(f"exception:forward:{kind}:{type(ex).__name__}", {**cfg, "input": xs}, repr(ex))
                            break
                        if tuple(out.shape) != (B, *outshape):
                            tally.violation(f"output-shape:{kind}", {**cfg, "input": xs}, f"{tuple(out.shape)} != {(B, *outshape)}")
                            break
                        got = out.reshape(B, O).tolist()
                        for b in range(B):
                            cur = [xs[b][i] + (inj[b][i] if inj else 0.0) for i in range(I)]
                            for o in range(O):
                                if kind == "dense":
                                    exp = sum(Wl[o][i] * cur[i] for i in range(I)) + bvec[o]
                                elif kind == "direct":
                                    exp = Wl[o] * cur[o] + bvec[o]
                                else:
                                    exp = sum(Wl[o][i] * cur[i] for i in range(I) if i != o) + bvec[o]
                                if got[b][o] != exp:
                                    tally.violation(f"linear-map:{kind}", {**cfg, "input": xs, "injected": inj, "b": b, "o": o},
                                                    f"out[{b},{o}]={got[b][o]}, documented map gives {exp}", exp, got[b][o])
                        if any(bits):
                            tally.mark("nontrivial", (kind, inshape, outshape, B, bias, skind, bits))
                    # ---- helpers (D)
                    xr = torch.arange(B * I, dtype=torch.float32).reshape(B, *inshape) + 1
                    back = c.like_input(c.like_synaptic(xr))
                    if tuple(back.shape) != tuple(xr.shape) or not torch.equal(back, xr):
                        tally.violation(f"like_input-roundtrip:{kind}", cfg, f"like_input(like_synaptic(x)) != x")
                    cur = c.like_synaptic(xr)
                    outv = torch.arange(B * O, dtype=torch.float32).reshape(B, *outshape) + 1
                    try:
                        pre = c.presyn_receptive(cur)
                        post = c.postsyn_receptive(outv)
                    except Exception as ex:
                        tally.violation(f"exception:{kind}:receptive", cfg, f"receptive view raised {type(ex).__name__}: {ex}", None, repr(ex))
                        continue
                    try:
                        pp = (pre * post)
                        red = pp.sum(-1) if kind != "direct" else pp.sum(-1)
                        okshape = tuple(red.shape[1:]) == tuple(c.weight.shape)
                    except Exception as ex:
                        okshape = False
                    tally.add("evaluations")
                    if not okshape:
                        tally.violation(f"receptive-broadcast:{kind}", cfg, f"pre {tuple(pre.shape)} x post {tuple(post.shape)} does not reduce to weight {tuple(c.weight.shape)}")
                    else:
                        # weight . presyn_receptive(current) summed over the input axes == forward without bias
                        c0 = c(torch.zeros(B, *inshape, dtype=torch.bool), xr) if skind == "deltaplus" else None
                        if c0 is not None:
                            if kind == "direct":
                                rec = (c.weight.unsqueeze(-1) * pre).sum(-1)
                            else:
                                rec = (c.weight.unsqueeze(-1) * pre).sum(-1).sum(-1)
                            expo = c0.reshape(B, O) - torch.tensor(bvec)
                            if tuple(rec.shape) != (B, O) or not torch.allclose(rec, expo):
                                tally.violation(f"receptive-reproduces-forward:{kind}", cfg, f"{rec.tolist()} vs forward-bias {expo.tolist()}")
    tally.sample({"part": "linear", "conn": kind, "weights": "distinct integers; every boolean input of the flattened input"})
    return tally


def naive_conv(x, W, bias, stride, padding, dilation):
    """x[b][c][h][w], W[f][c][kh][kw] (nested lists) -> out[b][f][oh][ow] by definition of cross-correlation"""
    B, C, H, Wd = len(x), len(x[0]), len(x[0][0]), len(x[0][0][0])
    Fn, KH, KW = len(W), len(W[0][0]), len(W[0][0][0])
    out = []
    ohs = [oh for oh in range(0, 64) if oh * stride[0] + dilation[0] * (KH - 1) - padding[0] <= H - 1 + padding[0]]
    ows = [ow for ow in range(0, 64) if ow * stride[1] + dilation[1] * (KW - 1) - padding[1] <= Wd - 1 + padding[1]]
    for b in range(B):
        ob = []
        for f in range(Fn):
            of = []
            for oh in ohs:
                row = []
                for ow in ows:
                    acc = bias[f] if bias else 0.0
                    for c in range(C):
                        for kh in range(KH):
                            ih = oh * stride[0] + kh * dilation[0] - padding[0]
                            if ih < 0 or ih >= H:
                                continue
                            for kw in range(KW):
                                iw = ow * stride[1] + kw * dilation[1] - padding[1]
                                if iw < 0 or iw >= Wd:
                                    continue
                                acc += W[f][c][kh][kw] * x[b][c][ih][iw]
                    row.append(acc)
                of.append(row)
            ob.append(of)
        out.append(ob)
    return out


def conv_shard(H, Wd, tier):
    tally = Tally()
    quick = tier == "quick"
    ks = (1, 2) if quick else (1, 2, 3)
    ss = (1, 2) if quick else (1, 2, 3)
    ps = (0, 1) if quick else (0, 1, 2)
    ds = (1, 2)
    for C, Fn in itertools.product((1, 2), (1, 2)):
        for kernel in itertools.product(ks, ks):
            for stride in itertools.product(ss, ss):
                for padding in itertools.product(ps, ps):
                    for dilation in itertools.product(ds, ds):
                        cfg = {"H": H, "W": Wd, "C": C, "F": Fn, "kernel": kernel, "stride": stride, "padding": padding, "dilation": dilation}
                        # windows counted by definition
                        def count(size, k, s, p, d):
                            return len([o for o in range(0, 64) if o * s + d * (k - 1) - p <= size - 1 + p])
                        OH, OW = count(H, kernel[0], stride[0], padding[0], dilation[0]), count(Wd, kernel[1], stride[1], padding[1], dilation[1])
                        if OH < 1 or OW < 1:
                            continue
                        if padding[0] > kernel[0] * dilation[0] or padding[1] > kernel[1] * dilation[1]:
                            pass
                        bias = (C + Fn) % 2 == 0
                        B = 1 + (kernel[0] + stride[1]) % 2
                        Wt = (torch.arange(Fn * C * kernel[0] * kernel[1], dtype=torch.float32).reshape(Fn, C, *kernel) * 2 - 3)
                        bt = torch.tensor([10.0 * (f + 1) for f in range(Fn)])
                        try:
                            c = Conv2D(H, Wd, C, Fn, DT, kernel, stride=stride, padding=padding, dilation=dilation, synapse=syn("deltaplus"),
                                       bias=bias, batch_size=B, weight_init=lambda w: Wt.clone(), bias_init=lambda b: bt.clone())
                        except Exception as ex:
                            tally.violation(f"exception:construct:conv:{type(ex).__name__}", cfg, repr(ex))
                            continue
                        tally.add("evaluations")
                        if tuple(c.outshape) != (Fn, OH, OW):
                            tally.violation("conv:outshape", cfg, f"advertised outshape {c.outshape}, window count gives {(Fn, OH, OW)}", [Fn, OH, OW], list(c.outshape))
                            continue
                        x = ((torch.arange(B * C * H * Wd, dtype=torch.float32) * 5) % 7 - 2).reshape(B, C, H, Wd)
                        spikes = (x > 1)
                        try:
                            out = c(spikes, x)
                        except Exception as ex:
                            tally.violation(f"exception:forward:conv:{type(ex).__name__}", cfg, repr(ex))
                            continue
                        cur = x + spikes.float()  # delta-plus: spikes*Q/dt + injected, Q=dt
                        exp = naive_conv(cur.tolist(), Wt.tolist(), bt.tolist() if bias else None, stride, padding, dilation)
                        if tuple(out.shape) != (B, Fn, OH, OW):
                            tally.violation("conv:output-shape", cfg, f"{tuple(out.shape)} != {(B, Fn, OH, OW)}")
                            continue
                        if out.tolist() != exp:
                            tally.violation("conv:cross-correlation", cfg, f"output differs from the naive cross-correlation", exp, out.tolist())
                        ref2 = F.conv2d(cur, Wt, bt if bias else None, stride=stride, padding=padding, dilation=dilation)
                        if not torch.equal(ref2, out):
                            tally.violation("conv:vs-F.conv2d", cfg, "output differs from torch.nn.functional.conv2d")
                        tally.mark("nontrivial", (H, Wd, C, Fn, kernel, stride, padding, dilation))
                        # helpers: like_input(like_synaptic(x)) == x on every covered position
                        covered = F.fold(F.unfold(torch.ones(1, C, H, Wd), kernel, dilation=dilation, padding=padding, stride=stride), (H, Wd), kernel,
                                         dilation=dilation, padding=padding, stride=stride) > 0
                        xx = torch.arange(B * C * H * Wd, dtype=torch.float32).reshape(B, C, H, Wd) + 1
                        back = c.like_input(c.like_synaptic(xx))
                        cov = covered.expand(B, -1, -1, -1)
                        if tuple(back.shape) != tuple(xx.shape) or not torch.allclose(back[cov], xx[cov]):
                            tally.violation("conv:like_input-roundtrip", cfg, "like_input(like_synaptic(x)) != x on covered positions")
                        # the same round trip for boolean (spikes) and integer data: values and dtype preserved
                        for xd in ((xx.long() % 3 == 0), (xx.long() % 5)):
                            try:
                                bk = c.like_input(c.like_synaptic(xd))
                            except Exception as ex:
                                tally.violation(f"conv:like_input-roundtrip:{xd.dtype}:exception", cfg, repr(ex))
                                continue
                            if bk.dtype != xd.dtype or tuple(bk.shape) != tuple(xd.shape) or not torch.equal(bk[cov], xd[cov]):
                                tally.violation(f"conv:like_input-roundtrip:{str(xd.dtype).replace('torch.', '')}", cfg,
                                                f"like_input(like_synaptic(x)) for {xd.dtype} data: dtype {bk.dtype}, values equal on covered positions: "
                                                f"{bool(tuple(bk.shape) == tuple(xd.shape) and torch.equal(bk[cov].to(xd.dtype), xd[cov]))}")
                        # receptive views
                        syncur = c.like_synaptic(cur)
                        try:
                            pre = c.presyn_receptive(syncur)
                            post = c.postsyn_receptive(out)
                        except Exception as ex:
                            tally.violation("exception:conv:presyn_receptive", cfg, f"receptive view raised {type(ex).__name__}: {ex}", None, repr(ex))
                            continue
                        try:
                            red = (pre * post).sum(-1)
                            okk = tuple(red.shape[1:]) == tuple(c.weight.shape)
                            rec = (c.weight.unsqueeze(-1) * pre).sum((2, 3, 4)).reshape(B, Fn, OH, OW)
                            expo = out - (bt.reshape(1, Fn, 1, 1) if bias else 0)
                            okk = okk and torch.allclose(rec, expo)
                        except Exception as ex:
                            okk = False
                        if not okk:
                            tally.violation("conv:receptive", cfg, f"pre {tuple(pre.shape)} / post {tuple(post.shape)} do not broadcast against weight "
                                            f"{tuple(c.weight.shape)} or do not reproduce forward")
    tally.sample({"part": "conv", "H": H, "W": Wd})
    return tally


# ---------------------------------------------------------------------------------------
# C: lateral mask


class St:
    pass


class LateralSystem:
    def __init__(self, n, ctor_init):
        self.n, self.ctor_init = n, ctor_init
        self.config = {"conn": "lateral", "n": n, "ctor_init": ctor_init}

    def build(self, history):
        st = St()
        n = self.n
        kw = {}
        if self.ctor_init == "inplace":  # initialisers that fill their argument in place and hand it back (torch.nn.init style)
            kw = dict(weight_init=lambda w: nn.init.constant_(w, 3.0), delay_init=lambda d: nn.init.constant_(d, 2.0))
        elif self.ctor_init:
            kw = dict(weight_init=lambda w: torch.ones_like(w) * 3, delay_init=lambda d: torch.ones_like(d) * 2)
        st.c = LinearLateral((n,), DT, synapse=syn("delta"), delay=2.0, bias=False, batch_size=1, **kw)
        st.c.updater = st.c.defaultupdater()
        st.k = 0
        for op in history:
            self.step(st, op, check=False)
        return st

    def queries(self, st):
        return ()

    def mutations(self, st):
        for prm in ("weight", "delay"):
            for kind in ("tensor", "param", "neg", "own", "iadd"):
                yield ("assign", prm, kind)
            for sign in ("pos", "neg"):
                yield ("update", prm, sign)

    def step(self, st, op, check=True):
        n = self.n
        c = st.c
        st.k += 1
        base = torch.arange(n * n, dtype=torch.float32).reshape(n, n) + st.k
        if op[0] == "assign":
            _, prm, kind = op
            v = base if kind != "neg" else -base
            if kind == "own":  # the connection's own parameter, changed in place, handed back to the setter
                setattr(c, prm, getattr(c, prm).add_(1.0))
            elif kind == "iadd":  # augmented assignment on the property
                setattr(c, prm, getattr(c, prm).__iadd__(1.0))
            else:
                setattr(c, prm, nn.Parameter(v, requires_grad=False) if kind == "param" else v)
        else:
            _, prm, sign = op
            if sign == "pos":
                setattr(c.updater, prm, (torch.ones(n, n) * 0.5, None))
            else:
                setattr(c.updater, prm, (None, torch.ones(n, n) * 0.25))
            c.update()
        if not check:
            return []
        bad = []
        for prm in ("weight", "delay"):
            d = torch.diagonal(getattr(c, prm)).tolist()
            if any(v != 0 for v in d):
                bad.append((f"lateral-diagonal:{prm}:{op[0]}", f"after {op}: diag({prm}) = {d}", [0.0] * n, d))
        # output j independent of input j
        c.delay = torch.zeros(n, n)
        zero = c(torch.zeros(1, n, dtype=torch.bool)).reshape(-1).tolist()
        for j in range(n):
            c.synapse.clear()
            x = torch.zeros(1, n, dtype=torch.bool)
            x[0, j] = True
            o = c(x).reshape(-1).tolist()
            if o[j] != zero[j]:
                bad.append((f"lateral-self-influence:{op[0]}", f"after {op}: output {j} changes with input {j}: {o[j]} vs {zero[j]}", zero[j], o[j]))
        return bad

    def canon(self, st):
        return (st.k,)  # depth-indexed: every sequence is a distinct state (bounded by max_depth)


def lateral_shard(n, ctor_init, depth):
    tally = Tally()
    sysm = LateralSystem(n, ctor_init)
    seen = set()

    # plain exhaustive enumeration of sequences up to depth (canon would merge by depth only; do it by hand)
    ops = list(sysm.mutations(None))
    for d in range(0, depth + 1):
        for seq in itertools.product(ops, repeat=d):
            st = sysm.build(list(seq[:-1])) if d else sysm.build([])
            tally.add("evaluations")
            if d == 0:
                bad = []
                for prm in ("weight", "delay"):
                    dg = torch.diagonal(getattr(st.c, prm)).tolist()
                    if any(v != 0 for v in dg):
                        bad.append((f"lateral-diagonal:{prm}:constructor", f"constructor: diag({prm}) = {dg}", None, dg))
            else:
                bad = sysm.step(st, seq[-1], check=True)
            for key, msg, e, a in bad:
                tally.violation(key, {"config": sysm.config, "history": [list(o) for o in seq]}, msg, e, a)
            tally.mark("nontrivial", (n, ctor_init, seq))
    tally.sample({"part": "lateral-mask", "n": n, "ops": [list(o) for o in ops], "depth": depth})
    return tally


def run(rep):
    quick = rep.tier == "quick"
    jobs = [(linear_shard, (k, rep.tier)) for k in ("dense", "direct", "lateral")]
    jobs += [(stateful_shard, (k, rep.tier)) for k in ("dense", "direct", "lateral", "conv")]
    # a maximum delay of exactly 0.0 is the undelayed map (shared with C06)
    import checks.c06_delay as c06
    jobs += [(c06.zero_maxdelay_shard, (k, sk, 2)) for k in ("dense", "direct", "lateral", "conv", "conv22") for sk in ("delta", "exp")]
    sizes = (3, 4) if quick else (1, 2, 3, 4, 5)
    for H in sizes:
        for Wd in sizes:
            jobs.append((conv_shard, (H, Wd, rep.tier)))
    depth = 2 if quick else 3
    for n in (2, 3):
        for ci in (False, True, "inplace"):
            jobs.append((lateral_shard, (n, ci, depth)))
    tally = run_shards(jobs, seed=rep.seed)
    rep.tally.merge(tally)
    rep.assumptions += [
        "integer / dyadic weights, biases and currents so that the expected value is exact (bitwise comparison)",
        "delta synapse with charge == dt (current == spike) and delta-plus with injected currents as the input source",
        "in-place mutation of Parameter.data is not an 'assignment' for the lateral mask",
        "conv grid: H,W in {3,4} (quick) / {1..5}; kernel, stride in {1,2}(,3); padding {0,1}(,2); dilation {1,2}; C,F in {1,2}",
    ]
    cov = {
        "evaluations": tally.counts.get("evaluations", 0),
        "distinct_nontrivial": len(tally.sets.get("nontrivial", ())),
        "exhaustive": True,
        "lateral_sequence_depth": depth,
        "rule": "A: all boolean inputs x shapes x batch x bias x synapse kind; B: full geometry product with non-empty output; "
                "C: all assignment/update sequences up to the depth bound; non-trivial = distinct non-zero inputs / geometries / sequences",
    }
    return rep.finish(cov, floors={"evaluations": 5000, "distinct_nontrivial": 3000})


def replay(case):
    if "history" in case:
        cfg = case["config"]
        sysm = LateralSystem(cfg["n"], cfg["ctor_init"])
        st = sysm.build([])
        for op in case["history"]:
            bad = sysm.step(st, tuple(op), check=True)
            if bad:
                return {"violations": [b[:2] for b in bad]}
        return {"violations": []}
    return {"violations": [], "note": "sweep case; configuration is in the record"}
