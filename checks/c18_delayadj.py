"""C18 - delay-adjusted and kernel STDP agree with their formula and with each other (E2).

Reference: the harness keeps the true most-recent spike times of every pre/post element; per step and
synapse t_delta = t_post_last - t_pre_last - d (no change while either is undefined); the causal branch is
taken iff t_delta >= 0; the update is lr*exp(-|t_delta|/tau), summed over receptive positions and routed
by the sign tables. All pre/post histories ride the batch dimension (identity batch reduction); the
delay schedule is enumerated (including delays that change between steps for the delay-learning
variants, assigned between steps). Cross-implementation oracles: DelayAdjustedKernelSTDP(D) with the
shipped exponential kernels == DelayAdjustedSTDP(D); all-zero delays == KernelSTDP.
"""

from __future__ import annotations

import itertools
import math

import torch

import inferno
from inferno.functional import exp_stdp_post_kernel, exp_stdp_pre_kernel
from inferno.learn import (DelayAdjustedSTDP, DelayAdjustedSTDPD, KernelSTDP, DelayAdjustedKernelSTDP, DelayAdjustedKernelSTDPD,
                           DelayAdjustedMSTDP, DelayAdjustedMSTDPD)

from mc.common import Tally
from mc.pool import run_shards
from checks.trainer_common import Cellspec, all_histories, identity_reduction, F64, step_layer

ID = "C18"
LEVEL = "model_checking"

SIGNS = {"hebbian": (1.0, -1.0), "anti": (-1.0, 1.0), "pot": (1.0, 1.0), "dep": (-1.0, -1.0)}
LRP, LRN, TCP, TCN = 0.5, 0.25, 4.0, 2.0
WEIGHT_RULES = ("da-stdp", "da-kernel", "kernel", "da-mstdp", "da-kernel-t", "kernel-t")
DELAY_RULES = ("da-stdpd", "da-kerneld", "da-mstdpd", "da-kerneld-t")


def make(rule, sign, reduction=identity_reduction):
    sp, sn = signs_of(sign)
    lp, ln = sp * LRP, sn * LRN
    kp = dict(learning_rate=lp, time_constant=TCP)
    kn = dict(learning_rate=ln, time_constant=TCN)
    if rule == "da-stdp":
        return DelayAdjustedSTDP(lr_pos=lp, lr_neg=ln, tc_pos=TCP, tc_neg=TCN, batch_reduction=reduction)
    if rule == "da-stdpd":
        return DelayAdjustedSTDPD(lr_neg=ln, lr_pos=lp, tc_neg=TCN, tc_pos=TCP, batch_reduction=reduction)
    if rule == "kernel":
        return KernelSTDP(exp_stdp_post_kernel, exp_stdp_pre_kernel, kp, kn, delayed=False, batch_reduction=reduction)
    if rule == "kernel-delayed":
        return KernelSTDP(exp_stdp_post_kernel, exp_stdp_pre_kernel, kp, kn, delayed=True, batch_reduction=reduction)
    if rule == "da-kernel":
        return DelayAdjustedKernelSTDP(exp_stdp_post_kernel, exp_stdp_pre_kernel, kp, kn, batch_reduction=reduction)
    if rule in ("da-kernel-t", "da-kerneld-t", "kernel-t"):
        # kernel keyword arguments given as tensors (documented: they are unpacked into per-cell buffers)
        kpt = {k: torch.tensor(v) for k, v in kp.items()}
        knt = {k: torch.tensor(v) for k, v in kn.items()}
        if rule == "da-kernel-t":
            return DelayAdjustedKernelSTDP(exp_stdp_post_kernel, exp_stdp_pre_kernel, kpt, knt, batch_reduction=reduction)
        if rule == "kernel-t":
            return KernelSTDP(exp_stdp_post_kernel, exp_stdp_pre_kernel, kpt, knt, delayed=False, batch_reduction=reduction)
        return DelayAdjustedKernelSTDPD(exp_stdp_post_kernel, exp_stdp_pre_kernel, knt, kpt, batch_reduction=reduction)
    if rule == "da-kerneld":
        # delay rule: the causal branch uses (lr_neg, tc_neg), the anti-causal branch (lr_pos, tc_pos) - see DelayAdjustedSTDPD
        return DelayAdjustedKernelSTDPD(exp_stdp_post_kernel, exp_stdp_pre_kernel, kn, kp, batch_reduction=reduction)
    if rule == "da-mstdp":
        return DelayAdjustedMSTDP(lr_pos=lp, lr_neg=ln, tc_pos=TCP, tc_neg=TCN, batch_reduction=reduction)
    if rule == "da-mstdpd":
        return DelayAdjustedMSTDPD(lr_neg=ln, lr_pos=lp, tc_neg=TCN, tc_pos=TCP, batch_reduction=reduction)
    raise ValueError(rule)


# learning-rate pairs with one side switched off exactly (only used for per-cell overrides: an override of exactly 0.0 is a value)
SIGNS_ZERO = {"posonly": (1.0, 0.0), "negonly": (0.0, -1.0)}


def signs_of(sign):
    return SIGNS[sign] if sign in SIGNS else SIGNS_ZERO[sign]


def make_overridden(rule, sign):
    """trainer built with decoy defaults (opposite signs, swapped magnitudes and time constants, another reduction) plus the
    register_cell overrides that give the cell the hyper-parameters of ``make(rule, sign)``"""
    sp, sn = signs_of(sign)
    lp, ln = sp * LRP, sn * LRN
    dlp, dln = -(sp or 1.0) * LRN, -(sn or -1.0) * LRP  # decoys are never zero
    kp, kn = dict(learning_rate=lp, time_constant=TCP), dict(learning_rate=ln, time_constant=TCN)
    dkp, dkn = dict(learning_rate=dlp, time_constant=TCN), dict(learning_rate=dln, time_constant=TCP)
    red = dict(batch_reduction=identity_reduction)
    if rule in ("da-stdp", "da-mstdp"):
        cls = DelayAdjustedSTDP if rule == "da-stdp" else DelayAdjustedMSTDP
        return cls(lr_pos=dlp, lr_neg=dln, tc_pos=TCN, tc_neg=TCP, batch_reduction=torch.amax), dict(lr_pos=lp, lr_neg=ln, tc_pos=TCP, tc_neg=TCN, **red)
    if rule in ("da-stdpd", "da-mstdpd"):
        cls = DelayAdjustedSTDPD if rule == "da-stdpd" else DelayAdjustedMSTDPD
        return cls(lr_neg=dln, lr_pos=dlp, tc_neg=TCP, tc_pos=TCN, batch_reduction=torch.amax), dict(lr_neg=ln, lr_pos=lp, tc_neg=TCN, tc_pos=TCP, **red)
    if rule == "da-kernel":
        return (DelayAdjustedKernelSTDP(exp_stdp_post_kernel, exp_stdp_pre_kernel, dkp, dkn, batch_reduction=torch.amax),
                dict(kernel_post_kwargs=kp, kernel_pre_kwargs=kn, **red))
    if rule == "da-kerneld":
        return (DelayAdjustedKernelSTDPD(exp_stdp_post_kernel, exp_stdp_pre_kernel, dkn, dkp, batch_reduction=torch.amax),
                dict(kernel_post_kwargs=kn, kernel_pre_kwargs=kp, **red))
    raise ValueError(rule)


def reference(rule, sign, dt, pre_syn, post, Ks, signals, gamma, parts=False):
    """pre_syn (T,B,N,L), post (T,B,F,L) bool; Ks list of (F,N) delays in TIME per step; -> (T,B,F,N) signed update of step t"""
    sp, sn = signs_of(sign)
    lp, ln = sp * LRP, sn * LRN
    rule = {"da-kernel-t": "da-kernel", "da-kerneld-t": "da-kerneld", "kernel-t": "kernel"}.get(rule, rule)
    T, B, N, L = pre_syn.shape
    Fn = post.shape[2]
    out = torch.zeros(T, B, Fn, N, dtype=F64)
    out_pos = torch.zeros(T, B, Fn, N, dtype=F64)
    out_neg = torch.zeros(T, B, Fn, N, dtype=F64)
    last_pre = torch.full((B, N, L), float("nan"), dtype=F64)
    last_post = torch.full((B, Fn, L), float("nan"), dtype=F64)
    for t in range(T):
        now = t * dt
        last_pre = torch.where(pre_syn[t], torch.full_like(last_pre, now), last_pre)
        last_post = torch.where(post[t], torch.full_like(last_post, now), last_post)
        d = Ks[t].to(F64).reshape(1, Fn, N, 1)
        if rule in ("kernel",):
            d = torch.zeros_like(d)
        td = last_post.reshape(B, Fn, 1, L) - last_pre.reshape(B, 1, N, L) - d  # (B,F,N,L)
        ok = ~torch.isnan(td)
        causal = (td >= 0) & ok
        anti = (td < 0) & ok
        a = td.abs()
        a = torch.where(ok, a, torch.zeros_like(a))
        if rule in WEIGHT_RULES or rule == "kernel-delayed":
            val = lp * torch.exp(-a / TCP) * causal + ln * torch.exp(-a / TCN) * anti
        else:
            val = ln * torch.exp(-a / TCN) * causal + lp * torch.exp(-a / TCP) * anti
        if rule in ("da-mstdp", "da-mstdpd"):
            val = val * (signals[t] * gamma)
        out[t] = val.sum(-1)
        # parts: every (synapse, position) term is routed by its own sign before the receptive positions are summed
        out_pos[t] = val.clamp_min(0).sum(-1)
        out_neg[t] = -val.clamp_max(0).sum(-1)
    if parts:
        return out, out_pos, out_neg
    return out


def shard(rule, conn, nio, T, dt, sign, sched):
    tally = Tally()
    overridden = rule.endswith("+ov")  # hyper-parameters reach the cell as register_cell overrides of decoy defaults
    rule = rule[:-3] if overridden else rule
    spec = Cellspec(conn, *nio)
    hs = all_histories(T, spec.in_bits + spec.out_bits)
    B = len(hs)
    pre_bits = [[h[t][: spec.in_bits] for h in hs] for t in range(T)]
    post_bits = [[h[t][spec.in_bits:] for h in hs] for t in range(T)]
    pre_syn = torch.stack([spec.pre_syn(pre_bits[t]) for t in range(T)], 0)
    post = torch.stack([spec.post_ref(post_bits[t]) for t in range(T)], 0)
    maxdelay = 2 * dt
    alphabet = [0.0, 0.5 * dt, dt, 2 * dt]
    nfree = int(spec.mask().sum())
    idx = spec.mask().nonzero()
    gamma = 0.5
    signals = [(1.0, -1.0, 0.5, -0.5)[t % 4] for t in range(T)]
    # delay schedules: constant assignment per synapse ("const"), or changing between steps ("moving")
    if sched == "const":
        assigns = list(itertools.product(range(len(alphabet)), repeat=min(nfree, 2)))
    else:
        assigns = [(j,) for j in range(len(alphabet))]
    for assign in assigns:
        def delays_at(t):
            d = torch.zeros(spec.wshape)
            for q, p in enumerate(idx):
                if sched == "const":
                    a = assign[q % len(assign)]
                else:
                    a = (assign[0] + t + q) % len(alphabet)
                d[tuple(p.tolist())] = alphabet[a]
            return d

        case = {"rule": rule + ("+ov" if overridden else ""), "conn": conn, "io": list(nio), "T": T, "dt": dt, "sign": sign, "delay_schedule": sched,
                "assign": list(assign), "batch=histories": B, "per_cell_overrides": overridden}
        tally.add("evaluations")
        param = "delay" if rule in DELAY_RULES else "weight"
        try:
            layer = spec.build(dt, B, maxdelay, delays_at(0))
            if overridden:
                trainer, ov = make_overridden(rule, sign)
                trainer.register_cell("cell", layer.cell, **ov)
            else:
                trainer = make(rule, sign)
                trainer.register_cell("cell", layer.cell)
            # cross-implementation partners on identical twin layers
            partners = {}
            if rule == "da-stdp":
                partners["da-kernel"] = None
            if rule == "da-stdpd":
                partners["da-kerneld"] = None
            for pr in partners:
                l2 = spec.build(dt, B, maxdelay, delays_at(0))
                t2 = make(pr, sign)
                t2.register_cell("cell", l2.cell)
                partners[pr] = (l2, t2)
            if rule == "da-stdp" and sched == "const" and all(a == 0 for a in assign):
                l3 = spec.build(dt, B, maxdelay, delays_at(0))
                t3 = make("kernel", sign)
                t3.register_cell("cell", l3.cell)
                partners["kernel(zero delays)"] = (l3, t3)
        except Exception as ex:
            tally.violation(f"exception:register:{rule}:{type(ex).__name__}", case, repr(ex))
            continue
        Ks = []
        prev_total = torch.zeros(B, *spec.wshape, dtype=F64)
        okrun = True
        for t in range(T):
            d_t = delays_at(t)
            Ks.append(spec.delays_to_K(d_t, 1.0) if conn != "direct" else spec.delays_to_K(d_t, 1.0))
            x, y = spec.pre_tensor(pre_bits[t]), spec.post_tensor(post_bits[t])
            try:
                for (L_, T_) in [(layer, trainer)] + list(partners.values()):
                    L_.connection.delay = d_t.clone()
                    step_layer(L_, x.clone(), y.clone())
                    if rule in ("da-mstdp", "da-mstdpd") and T_ is trainer:
                        T_(signals[t], gamma)
                    else:
                        T_()
            except Exception as ex:
                tally.violation(f"exception:{rule}:{type(ex).__name__}", {**case, "step": t}, f"{type(ex).__name__}: {ex}", None, repr(ex))
                okrun = False
                break
            ref, ref_pos, ref_neg = reference(rule, sign, dt, pre_syn[: t + 1], post[: t + 1], Ks, signals, gamma, parts=True)
            acc = getattr(layer.connection.updater, param)
            z = torch.zeros(B, *spec.wshape, dtype=F64)
            pos, neg = acc.pos, acc.neg
            total = (z if pos is None else pos.to(F64)) - (z if neg is None else neg.to(F64))
            exp_total = spec.to_weight_space(ref.sum(0))
            mask = spec.mask()
            if total.shape != exp_total.shape:
                tally.violation(f"accumulator-shape:{rule}", {**case, "step": t}, f"{tuple(total.shape)} vs {tuple(exp_total.shape)}")
                okrun = False
                break
            diff = ((total - exp_total).abs() * mask).reshape(B, -1).amax(1)
            badi = (diff > 1e-5).nonzero().reshape(-1)
            if len(badi):
                b = int(badi[0])
                tally.violation(f"formula:{rule}:{conn}:{sign}:{sched}", {**case, "step": t, "pre_history": [pre_bits[u][b] for u in range(t + 1)],
                                "post_history": [post_bits[u][b] for u in range(t + 1)], "delays_now": d_t.tolist()},
                                f"step {t}: accumulated {param} change {total[b].reshape(-1).tolist()} but t_delta formula from true last spike times gives "
                                f"{exp_total[b].reshape(-1).tolist()} (pre {[pre_bits[u][b] for u in range(t + 1)]}, post {[post_bits[u][b] for u in range(t + 1)]}, "
                                f"delays {d_t.reshape(-1).tolist()})", exp_total[b].tolist(), total[b].tolist())
                okrun = False
                break
            for nm, part, pref in (("pos", pos, ref_pos), ("neg", neg, ref_neg)):
                if part is not None and bool((part < -1e-9).any()):
                    tally.violation(f"negative-part:{rule}:{nm}", {**case, "step": t}, f"{nm} part has negative entries")
                pv = z if part is None else part.to(F64)
                pe = spec.to_weight_space(pref.sum(0))
                dd = ((pv - pe).abs() * mask).reshape(B, -1).amax(1)
                bi = (dd > 1e-5).nonzero().reshape(-1)
                if len(bi):
                    b = int(bi[0])
                    tally.violation(f"routing:{rule}:{sign}:{nm}", {**case, "step": t, "pre_history": [pre_bits[u][b] for u in range(t + 1)],
                                    "post_history": [post_bits[u][b] for u in range(t + 1)]},
                                    f"step {t}: {nm} part {pv[b].reshape(-1).tolist()} but the same-signed terms sum to {pe[b].reshape(-1).tolist()}")
                    okrun = False
            # cross-implementation agreement (both parts, not only the net)
            for pr, (l2, t2) in partners.items():
                a2 = getattr(l2.connection.updater, param)
                for nm in ("pos", "neg"):
                    p1, p2 = getattr(acc, nm), getattr(a2, nm)
                    z32 = torch.zeros(B, *spec.wshape)
                    p1 = z32 if p1 is None else p1
                    p2 = z32 if p2 is None else p2
                    if not torch.allclose(p1 * mask, p2 * mask, rtol=1e-5, atol=1e-6):
                        b = int(((p1 - p2).abs() * mask).reshape(B, -1).amax(1).argmax())
                        tally.violation(f"cross:{rule}!={pr}:{nm}", {**case, "step": t, "pre_history": [pre_bits[u][b] for u in range(t + 1)],
                                        "post_history": [post_bits[u][b] for u in range(t + 1)]},
                                        f"step {t}: {rule} {nm} part {p1[b].reshape(-1).tolist()} but {pr} gives {p2[b].reshape(-1).tolist()}")
                        okrun = False
            if not okrun:
                break
        tally.mark("nontrivial", (rule, conn, nio, T, dt, sign, sched, assign))
    tally.add("histories", B * len(assigns))
    tally.sample({"rule": rule, "conn": conn, "T": T, "dt": dt, "sign": sign, "schedule": sched, "delay_alphabet": alphabet, "histories_as_batch": B})
    return tally


def applied_shard(rule, sign, dt):
    """B=1, real reduction, update() applied after every step: the parameter follows the formula evaluated at the delay the
    rule itself has produced so far (one-step reference from the implementation's own current delay)"""
    tally = Tally()
    spec = Cellspec("dense", 1, 1)
    T = 4
    hs = all_histories(T, 2)
    param = "delay" if rule in DELAY_RULES else "weight"
    for h in hs:
        tally.add("evaluations")
        case = {"rule": rule, "sign": sign, "dt": dt, "history": h, "part": "applied"}
        layer = spec.build(dt, 1, 2 * dt, torch.tensor([[0.5 * dt]]))
        trainer = make(rule, sign, None)
        trainer.register_cell("cell", layer.cell)
        pre_syn = torch.stack([spec.pre_syn([h[t][:1]]) for t in range(T)], 0)
        post = torch.stack([spec.post_ref([h[t][1:]]) for t in range(T)], 0)
        Ks = []
        for t in range(T):
            before = getattr(layer.connection, param).detach().clone().to(F64)
            Ks.append(layer.connection.delay.detach().clone().to(F64))
            try:
                step_layer(layer, spec.pre_tensor([h[t][:1]]), spec.post_tensor([h[t][1:]]))
                if rule in ("da-mstdp", "da-mstdpd"):
                    trainer(-0.5 if t % 2 else 1.0, 0.5)
                else:
                    trainer()
                layer.connection.update()
            except Exception as ex:
                tally.violation(f"exception:applied:{rule}:{type(ex).__name__}", {**case, "step": t}, repr(ex))
                break
            sig = [(-0.5 if u % 2 else 1.0) for u in range(T)]
            ref = reference(rule, sign, dt, pre_syn[: t + 1], post[: t + 1], Ks, sig, 0.5)[t, 0]
            after = getattr(layer.connection, param).detach().to(F64)
            if not torch.allclose(after, before + ref, rtol=1e-5, atol=1e-6):
                tally.violation(f"applied:{rule}:{sign}", {**case, "step": t}, f"{param} {before.reshape(-1).tolist()} -> {after.reshape(-1).tolist()}, formula gives "
                                f"{(before + ref).reshape(-1).tolist()}", (before + ref).tolist(), after.tolist())
                break
        tally.mark("nontrivial", (rule, sign, dt, tuple(map(tuple, h))))
    tally.sample({"part": "applied", "rule": rule, "sign": sign})
    return tally


def multicell_shard(rule, sign, T, gamma=0.5):
    """one trainer, TWO cells with different histories, per-sample signal TENSOR (batch of one) and scale != 1:
    every cell's update must equal its own single-cell formula (no carry-over between cells)"""
    tally = Tally()
    spec = Cellspec("dense", 1, 1)
    dt = 1.0
    hs = all_histories(T, 2)
    param = "delay" if rule in DELAY_RULES else "weight"
    three = rule in ("da-mstdp", "da-mstdpd")
    # gamma < 0: the scale is documented as "its absolute value will be used" for per-sample reward tensors
    for h in hs:
        hists = [h, [tuple(1 - v for v in letter) for letter in h][::-1]]
        case = {"rule": rule, "sign": sign, "part": "two cells on one trainer", "histories": hists, "signal": "tensor" if three else None, "scale": gamma}
        tally.add("evaluations")
        layers = [spec.build(dt, 1, 2 * dt, torch.tensor([[0.5 * dt * (i + 1)]])) for i in range(2)]
        tr = make(rule, sign, None)
        for i, L_ in enumerate(layers):
            tr.register_cell(f"c{i}", L_.cell)
        sig = [(-0.5 if u % 2 else 1.0) for u in range(T)]
        Ks = [[], []]
        ok = True
        for t in range(T):
            for i, L_ in enumerate(layers):
                Ks[i].append(L_.connection.delay.detach().clone().to(F64))
                step_layer(L_, spec.pre_tensor([hists[i][t][:1]]), spec.post_tensor([hists[i][t][1:]]))
            try:
                if three:
                    tr(torch.tensor([sig[t]]), gamma)
                else:
                    tr()
            except Exception as ex:
                tally.violation(f"exception:multicell:{rule}:{type(ex).__name__}", {**case, "step": t}, repr(ex))
                ok = False
                break
            for i, L_ in enumerate(layers):
                pre_syn = torch.stack([spec.pre_syn([hists[i][u][:1]]) for u in range(t + 1)], 0)
                post = torch.stack([spec.post_ref([hists[i][u][1:]]) for u in range(t + 1)], 0)
                ref = reference(rule, sign, dt, pre_syn, post, Ks[i], sig, abs(gamma))
                acc = getattr(L_.connection.updater, param)
                for nm, part in (("pos", acc.pos), ("neg", acc.neg)):
                    if part is not None and bool((part < -1e-9).any()):
                        tally.violation(f"multicell:negative-part:{rule}:{nm}", {**case, "step": t, "cell": i}, f"the {nm} part handed to the updater has negative entries")
                        ok = False
                z = torch.zeros(spec.wshape, dtype=F64)
                got = (z if acc.pos is None else acc.pos.to(F64)) - (z if acc.neg is None else acc.neg.to(F64))
                exp = ref.sum(0)[0]
                if not torch.allclose(got, exp, atol=1e-5):
                    tally.violation(f"multicell:{rule}:cell{i}", {**case, "step": t, "cell": i}, f"cell {i} accumulated {got.reshape(-1).tolist()} but its own history "
                                    f"gives {exp.reshape(-1).tolist()}", exp.tolist(), got.tolist())
                    ok = False
            if not ok:
                break
        tally.mark("nontrivial", ("multicell", rule, sign, tuple(map(tuple, h))))
    tally.sample({"part": "multicell", "rule": rule, "sign": sign, "T": T})
    return tally


def shared_layer_shard(rule, T):
    """one trainer, TWO cells of one Biclique layer (two delayed connections ending on one neuron group) with different presynaptic
    histories: every history of (pre_a, pre_b, post) rides the batch; each connection's accumulated change follows the t_delta formula
    of its OWN spike times (a monitor shared between the two cells may only observe what both cells observe)."""
    from inferno.neural import Biclique, LinearDense, DeltaCurrent
    from inferno.extra import ExactNeuron
    tally = Tally()
    dt = 1.0
    hs = all_histories(T, 3)
    B = len(hs)
    spec = Cellspec("dense", 1, 1)
    param = "delay" if rule in DELAY_RULES else "weight"
    case = {"rule": rule, "part": "two cells of one layer on one trainer", "T": T, "batch=histories": B}
    tally.add("evaluations")
    try:
        def conn(d):
            c = LinearDense((1,), (1,), dt, synapse=DeltaCurrent.partialconstructor(spike_charge=dt), delay=2.0, batch_size=B,
                            weight_init=lambda w: torch.full_like(w, 0.5), delay_init=lambda x: torch.full_like(x, d))
            c.updater = c.defaultupdater()
            return c
        layer = Biclique([("a", conn(1.0)), ("b", conn(0.0))], [("x", ExactNeuron((1,), dt, rest_v=-60.0, thresh_v=-45.0, batch_size=B))])
        tr = make(rule, "hebbian")
        tr.register_cell("a", layer.get_cell("a", "x"))
        tr.register_cell("b", layer.get_cell("b", "x"))
        for t in range(T):
            xa = torch.tensor([[h[t][0]] for h in hs], dtype=torch.bool)
            xb = torch.tensor([[h[t][1]] for h in hs], dtype=torch.bool)
            y = torch.tensor([[h[t][2]] for h in hs], dtype=torch.bool)
            layer({"a": (xa,), "b": (xb,)}, neuron_kwargs={"x": {"override": y}})
            tr()
    except Exception as ex:
        tally.violation(f"exception:shared-layer:{rule}:{type(ex).__name__}", case, f"{type(ex).__name__}: {ex}", None, repr(ex))
        return tally
    post = torch.stack([spec.post_ref([[h[t][2]] for h in hs]) for t in range(T)], 0)
    for ci, (cname, d) in enumerate((("a", 1.0), ("b", 0.0))):
        pre_syn = torch.stack([spec.pre_syn([[h[t][ci]] for h in hs]) for t in range(T)], 0)
        Ks = [torch.full((1, 1), d, dtype=F64) for _ in range(T)]
        ref = reference(rule, "hebbian", dt, pre_syn, post, Ks, None, 1.0)
        exp = spec.to_weight_space(ref.sum(0))
        acc = getattr(layer.get_connection(cname).updater, param)
        z = torch.zeros(B, *spec.wshape, dtype=F64)
        got = (z if acc.pos is None else acc.pos.to(F64)) - (z if acc.neg is None else acc.neg.to(F64))
        diff = (got - exp).abs().reshape(B, -1).amax(1)
        bi = (diff > 1e-5).nonzero().reshape(-1)
        if len(bi):
            b = int(bi[0])
            tally.violation(f"shared-layer:{rule}:cell-{cname}", {**case, "history(pre_a,pre_b,post)": hs[b]},
                            f"cell '{cname}' accumulated {got[b].reshape(-1).tolist()} but the formula on its own spike times gives {exp[b].reshape(-1).tolist()}",
                            exp[b].tolist(), got[b].tolist())
    tally.mark("nontrivial", ("shared-layer", rule, T))
    tally.add("histories", B)
    return tally


def cross_reduction_shard(redname):
    """kernel STDP reproduces delay-adjusted STDP also under a non-additive batch reduction (amax, median over a batch of three):
    potentiative-only rates (both halves non-negative), every triple built from pairs of histories of length 2, parts compared"""
    tally = Tally()
    spec = Cellspec("dense", 1, 1)
    dt, T = 1.0, 2
    hs = all_histories(T, 2)
    red = {"amax": torch.amax, "median": lambda x, dim: torch.quantile(x, 0.5, dim=dim, interpolation="nearest")}[redname]
    for ha, hb in itertools.product(hs, hs):
        trio = [ha, hb, hs[(hs.index(ha) + 5) % len(hs)]]
        case = {"rules": ["da-stdp", "da-kernel"], "reduction": redname, "sign": "pot", "histories": trio}
        tally.add("evaluations")
        try:
            outs = []
            for rule in ("da-stdp", "da-kernel"):
                layer = spec.build(dt, 3, 2.0, torch.full(spec.wshape, 1.0))
                tr = make(rule, "pot", red)
                tr.register_cell("cell", layer.cell)
                for t in range(T):
                    step_layer(layer, spec.pre_tensor([h[t][:1] for h in trio]), spec.post_tensor([h[t][1:] for h in trio]))
                    tr()
                acc = layer.connection.updater.weight
                outs.append([None if x is None else x.detach().clone() for x in (acc.pos, acc.neg)])
        except Exception as ex:
            tally.violation(f"exception:cross-reduction:{redname}:{type(ex).__name__}", case, repr(ex))
            break
        for i, nm in enumerate(("pos", "neg")):
            a, b = outs[0][i], outs[1][i]
            za = torch.zeros(spec.wshape) if a is None else a
            zb = torch.zeros(spec.wshape) if b is None else b
            if za.shape != zb.shape or not torch.allclose(za, zb, atol=1e-6):
                tally.violation(f"cross-reduction:{redname}:{nm}", case, f"{nm} part: delay-adjusted STDP {za.reshape(-1).tolist()} vs kernel STDP with the same rates "
                                f"{zb.reshape(-1).tolist()} under {redname}", za.tolist(), zb.tolist())
        if ha != hb:
            tally.mark("nontrivial", ("cross-reduction", redname, tuple(map(tuple, ha)), tuple(map(tuple, hb))))
    tally.sample({"part": "kernel vs delay-adjusted under a non-additive reduction", "reduction": redname})
    return tally


def default_reduction_shard(pair):
    """trainers built WITHOUT a batch reduction, batch of three: the kernel rule with the shipped exponential kernels reproduces the
    dedicated delay-adjusted rule (same rates, same time constants, both at their defaults), and each equals itself built with the
    documented default (the mean) spelled out. Every triple of histories built as in cross_reduction_shard, parts compared."""
    tally = Tally()
    spec = Cellspec("dense", 1, 1)
    dt, T = 1.0, 2
    hs = all_histories(T, 2)
    param = "delay" if pair[0] in DELAY_RULES else "weight"
    for ha, hb in itertools.product(hs, hs):
        trio = [ha, hb, hs[(hs.index(ha) + 5) % len(hs)]]
        case = {"rules": list(pair), "part": "default batch reduction", "histories": trio}
        tally.add("evaluations")
        try:
            outs = {}
            for rule, red in ((pair[0], None), (pair[1], None), (pair[0], torch.mean), (pair[1], torch.mean)):
                layer = spec.build(dt, 3, 2.0, torch.full(spec.wshape, 1.0))
                tr = make(rule, "hebbian", red)
                tr.register_cell("cell", layer.cell)
                for t in range(T):
                    step_layer(layer, spec.pre_tensor([h[t][:1] for h in trio]), spec.post_tensor([h[t][1:] for h in trio]))
                    tr()
                acc = getattr(layer.connection.updater, param)
                outs[(rule, red is None)] = [torch.zeros(spec.wshape) if x is None else x.detach().clone() for x in (acc.pos, acc.neg)]
        except Exception as ex:
            tally.violation(f"exception:default-reduction:{pair[0]}:{type(ex).__name__}", case, repr(ex))
            break
        for i, nm in enumerate(("pos", "neg")):
            a, b = outs[(pair[0], True)][i], outs[(pair[1], True)][i]
            if a.shape != b.shape or not torch.allclose(a, b, atol=1e-6):
                tally.violation(f"default-reduction:{pair[0]}!={pair[1]}:{nm}", case, f"{nm} part, both without a reduction: {pair[0]} {a.reshape(-1).tolist()} vs "
                                f"{pair[1]} {b.reshape(-1).tolist()}", a.tolist(), b.tolist())
            for rule in pair:
                a, b = outs[(rule, True)][i], outs[(rule, False)][i]
                if not torch.allclose(a, b, atol=1e-6):
                    tally.violation(f"default-reduction:{rule}:{nm}", case, f"{nm} part without a reduction {a.reshape(-1).tolist()}, with the documented default "
                                    f"(mean) {b.reshape(-1).tolist()}", b.tolist(), a.tolist())
        if ha != hb:
            tally.mark("nontrivial", ("default-reduction", pair, tuple(map(tuple, ha)), tuple(map(tuple, hb))))
    tally.sample({"part": "default batch reduction", "rules": list(pair)})
    return tally


def reregister_shard(rule, T):
    """a cell removed from a trainer and registered again under the same name in the middle of a run: from then on the trainer
    uses the spike times seen since the new registration (its new monitors), exactly like a second trainer that first met an
    identically driven layer at that step. Every pre/post history of length T (as batch) x every re-registration step."""
    tally = Tally()
    spec = Cellspec("dense", 1, 1)
    dt = 1.0
    hs = all_histories(T, 2)
    B = len(hs)
    param = "delay" if rule in DELAY_RULES else "weight"
    three = rule in ("da-mstdp", "da-mstdpd")
    for p in range(1, T):
        case = {"rule": rule, "part": "cell re-registered under the same name", "reregistered_before_step": p, "T": T, "batch=histories": B}
        tally.add("evaluations")
        try:
            la = spec.build(dt, B, 2.0, torch.full(spec.wshape, 1.0))
            lb = spec.build(dt, B, 2.0, torch.full(spec.wshape, 1.0))
            ta, tb = make(rule, "hebbian"), make(rule, "hebbian")
            ta.register_cell("cell", la.cell)
            for t in range(T):
                if t == p:
                    ta.del_cell("cell")
                    ta.register_cell("cell", la.cell)
                    la.connection.updater.clear()
                    tb.register_cell("cell", lb.cell)
                pre, post = spec.pre_tensor([h[t][:1] for h in hs]), spec.post_tensor([h[t][1:] for h in hs])
                step_layer(la, pre.clone(), post.clone())
                step_layer(lb, pre.clone(), post.clone())
                for tr, live in ((ta, True), (tb, t >= p)):
                    if live:
                        if three:
                            tr(1.0, 0.5)
                        else:
                            tr()
            outs = []
            for L_ in (la, lb):
                acc = getattr(L_.connection.updater, param)
                z = torch.zeros(B, *spec.wshape)
                outs.append([z if x is None else x.detach().clone() for x in (acc.pos, acc.neg)])
        except Exception as ex:
            tally.violation(f"exception:reregister:{rule}:{type(ex).__name__}", case, repr(ex))
            continue
        for i, nm in enumerate(("pos", "neg")):
            a, b = outs[0][i], outs[1][i]
            d = (a - b).abs().reshape(B, -1).amax(1)
            bi = (d > 1e-6).nonzero().reshape(-1)
            if len(bi):
                k = int(bi[0])
                tally.violation(f"reregister:{rule}:{nm}", {**case, "history(pre,post)": hs[k]}, f"{nm} part accumulated after the re-registration "
                                f"{a[k].reshape(-1).tolist()}; a trainer that first saw the cell at that step accumulates {b[k].reshape(-1).tolist()}",
                                b[k].tolist(), a[k].tolist())
        tally.mark("nontrivial", ("reregister", rule, p))
    tally.add("histories", B)
    tally.sample({"part": "re-registration", "rule": rule, "T": T})
    return tally


def run(rep):
    quick = rep.tier == "quick"
    T1 = 4 if quick else 5
    T2 = 2 if quick else 3
    jobs = []
    for rule in ("da-stdp", "da-stdpd", "da-mstdp", "da-mstdpd", "da-kernel", "da-kerneld"):
        for sign in SIGNS:
            for dt in (1.0, 0.5):
                for sched in ("const", "moving"):
                    if quick and dt == 0.5 and rule in ("da-kernel", "da-kerneld"):
                        continue
                    jobs.append((shard, (rule, "dense", (1, 1), T1, dt, sign, sched)))
        for conn, nio in (("dense", (2, 2)), ("direct", (2, 2)), ("lateral", (2, 2)), ("conv", (1, 1)), ("conv2c", (1, 1)), ("densemd", (2, 2))):
            for sign in ("hebbian", "anti"):
                jobs.append((shard, (rule, conn, nio, T2, 1.0, sign, "const")))
        for sign in ("hebbian", "dep"):
            jobs.append((applied_shard, (rule, sign, 1.0)))
        for sign in (tuple(SIGNS) if rule in ("da-mstdp", "da-mstdpd") else ("hebbian", "dep")):
            jobs.append((multicell_shard, (rule, sign, 3 if quick else 4)))
        if rule in ("da-mstdp", "da-mstdpd"):
            jobs.append((multicell_shard, (rule, "hebbian", 3, -0.5)))
    # hyper-parameters given as per-cell overrides of a trainer constructed with decoy defaults
    for rule in ("da-stdp", "da-stdpd", "da-mstdp", "da-mstdpd", "da-kernel", "da-kerneld"):
        for sign in list(SIGNS) + (list(SIGNS_ZERO) if rule in ("da-stdp", "da-stdpd", "da-mstdp", "da-mstdpd") else []):
            jobs.append((shard, (rule + "+ov", "dense", (1, 1), T1 - 1, 1.0, sign, "const")))
    for rule in ("da-stdp", "da-stdpd", "da-kernel", "da-kerneld"):
        jobs.append((shared_layer_shard, (rule, 3)))
    for redname in ("amax", "median"):
        jobs.append((cross_reduction_shard, (redname,)))
    # per-sample reward tensors on cells whose weight is not 2-D (batched step = sum of the per-sample steps; shared with C11)
    import checks.c11_batch as c11
    for rule in ("da-mstdp", "da-mstdpd"):
        for conn in ("direct", "conv"):
            jobs.append((c11.da_batch_shard, (rule, conn)))
    for rule in ("da-stdp", "da-stdpd", "da-mstdp", "da-mstdpd", "da-kernel", "da-kerneld"):
        jobs.append((reregister_shard, (rule, 4)))
    for pair in (("da-stdp", "da-kernel"), ("da-stdpd", "da-kerneld")):
        jobs.append((default_reduction_shard, (pair,)))
    # kernel keyword arguments passed as tensors
    for rule in ("da-kernel-t", "da-kerneld-t"):
        for sign in ("hebbian", "anti"):
            jobs.append((shard, (rule, "dense", (1, 1), T1 - 1, 1.0, sign, "const")))
            jobs.append((shard, (rule, "dense", (2, 2), T2, 1.0, sign, "const")))
    tally = run_shards(jobs, seed=rep.seed)
    rep.tally.merge(tally)
    c = tally.counts
    rep.assumptions += [
        "true last spike times are kept by the harness from the enumerated pre/post history; delays from {0, dt/2, dt, 2dt} per synapse, constant "
        "or changing between steps by direct assignment; tolerance 1e-5",
        "three-factor variants use a scalar signal that changes sign and size over the steps (per-sample signals regroup the batch by sign)",
    ]
    cov = {
        "states": c.get("histories", 0) * T1,
        "transitions": c.get("histories", 0) * T1,
        "traces_validated_against_impl": c.get("histories", 0),
        "configurations": len(jobs),
        "exhaustive": True,
        "history_length": {"1x1": T1, "2x2/direct/lateral/conv": T2, "applied": 4},
        "evaluations": c.get("evaluations", 0),
        "distinct_nontrivial": len(tally.sets.get("nontrivial", ())),
        "rule": "all pre/post histories (as batch) x rule x sign mode x dt x delay schedule x delay assignment, with the dedicated rule, the kernel "
                "rule with exponential kernels and (zero delays) the unadjusted kernel rule run side by side; non-trivial = distinct configurations",
    }
    return rep.finish(cov, floors={"traces_validated_against_impl": 20000, "evaluations": 500})


def replay(case):
    return {"violations": [], "note": "configuration and the failing pre/post history are in the record"}
