"""C06 - a connection delay is a pure per-synapse time shift (E2, differential).

A delayed connection and an identically parameterised UNDELAYED connection are driven with the same
input history; the undelayed synapse's per-step currents/spikes are the reference for what each
presynaptic contribution was at each step. Expected delayed output at step t is
sum_i W[o,i] * cur[t - d_oi/dt][i] (rest before the start / the last clear); between grid points the
synapse's interpolation rule is applied to the undelayed history. All boolean input histories of
length T are run at once as the batch dimension (sample b = history b); every per-synapse delay
assignment over the delay alphabet is enumerated; clear() at every position.
"""

from __future__ import annotations

import itertools
import math

import torch

import inferno
from inferno.neural import (LinearDense, LinearDirect, LinearLateral, Conv2D, DeltaCurrent, DeltaPlusCurrent,
                            SingleExponentialCurrent, DoubleExponentialCurrent)

from mc.common import Tally, Guard
from mc.pool import run_shards

ID = "C06"
LEVEL = "model_checking"

TAU, TD, TR = 2.0, 4.0, 1.0


def syn_ctor(kind, dt, mode="previous", tol=0.0):
    ip = {}
    if kind.endswith("+ip"):  # the synapse's in-place option: same history, written in place
        kind, ip = kind[:-3], {"inplace": True}
    if kind == "delta":
        return DeltaCurrent.partialconstructor(spike_charge=dt, interp_mode=mode, interp_tol=tol, **ip)
    if kind == "deltaplus":
        return DeltaPlusCurrent.partialconstructor(spike_charge=dt, interp_mode=mode, interp_tol=tol, **ip)
    if kind == "exp":
        return SingleExponentialCurrent.partialconstructor(spike_charge=2.0, time_constant=TAU, spike_interp_mode=mode, interp_tol=tol, **ip)
    return DoubleExponentialCurrent.partialconstructor(spike_charge=2.0, tc_decay=TD, tc_rise=TR, spike_interp_mode=mode, interp_tol=tol, **ip)


CONV_GEOM = {"conv": (1, 3, 1, 2), "conv22": (2, 3, 2, 2)}  # H, W, kH, kW (one channel)


def build(conn, skind, dt, delay, B, Wt, Dt, mode="previous", tol=0.0):
    """delay=None -> undelayed. Wt/Dt tensors shaped like the connection's weight."""
    kw = dict(synapse=syn_ctor(skind, dt, mode, tol), delay=delay, batch_size=B, weight_init=lambda w: Wt.clone())
    if delay is not None:
        kw["delay_init"] = lambda d: Dt.clone()
    if conn == "dense":
        return LinearDense((2,), (2,), dt, **kw)
    if conn == "direct":
        return LinearDirect((2,), dt, **kw)
    if conn == "lateral":
        return LinearLateral((2,), dt, **kw)
    H, Wd, kh, kw_ = CONV_GEOM[conn]
    return Conv2D(H, Wd, 1, Wt.shape[0], dt, (kh, kw_), **kw)  # -> L = (H-kh+1)*(W-kw+1) positions


def weight_for(conn, F=2):
    if conn == "dense":
        return torch.tensor([[1.0, 2.0], [4.0, 8.0]])
    if conn == "direct":
        return torch.tensor([1.0, 2.0])
    if conn == "lateral":
        return torch.tensor([[0.0, 2.0], [4.0, 0.0]])
    if conn == "conv22":
        return torch.tensor([[[[1.0, 2.0], [4.0, 8.0]]], [[[16.0, 32.0], [64.0, 128.0]]]])[:F]
    return torch.tensor([[[[1.0, 2.0]]], [[[4.0, 8.0]]]])[:F]


def free_positions(conn, F=2):
    """indices of the delay tensor that are enumerated"""
    if conn == "dense":
        return [(0, 0), (0, 1), (1, 0), (1, 1)]
    if conn == "direct":
        return [(0,), (1,)]
    if conn == "lateral":
        return [(0, 1), (1, 0)]
    _, _, kh, kw_ = CONV_GEOM[conn]
    return [(f, 0, i, j) for f in range(F) for i in range(kh) for j in range(kw_)]


def histories(T, insize):
    letters = list(itertools.product((0, 1), repeat=insize))
    return list(itertools.product(letters, repeat=T))


def interp(skind, series, pos, neg, t, s, mode, dt):
    """value of the undelayed per-step series 's' steps before step t (s may be fractional), rest before the start.
    series[t] tensors; returns tensor like series[0]"""
    zero = torch.zeros_like(series[0])

    def at(ser, k):
        return ser[t - k] if 0 <= t - k < len(ser) else torch.zeros_like(ser[0])

    if abs(s - round(s)) < 1e-6:
        return at(series, int(round(s)))
    c, f_ = math.ceil(s), math.floor(s)
    el = dt * (c - s)
    if skind in ("delta", "deltaplus"):
        if mode == "previous":
            return at(series, c)
        return at(series, f_) if el / dt > 0.5 else at(series, c)
    if skind == "exp":
        return at(series, c) * math.exp(-el / TAU)
    return at(pos, c) * math.exp(-el / TD) - at(neg, c) * math.exp(-el / TR)


def shard(conn, skind, dt, maxk, fractional, T, F=2, only_assign=None, only_clear=(), tol=0.0, alphabet_override=None, reassign_at=None, mode="previous", dt_from=None, float64=False, maxdelay_from=None):
    """mode: the synapse's (spike) interpolation mode for off-grid delays; dt_from: both connections are constructed with this
    step time and then assigned ``dt`` through the public setter before the run (the records must follow); maxdelay_from: the
    delayed connection is constructed with this (smaller) maximum delay and all-zero delays, then the synapse's maximum delay is
    raised through ``connection.synapse.delay = max`` and the per-synapse delays are assigned.
    reassign_at = r: after r steps the per-synapse delays are replaced through the public setter (``conn.delay = D2``, the way
    an updater applies learned delays) by the assignment rotated one place through the alphabet; from then on the output is the
    shift by the *new* delays of the same undelayed history."""
    tally = Tally()
    skind_b, skind = skind, skind[:-3] if skind.endswith("+ip") else skind  # build with the option, compare as the plain kind
    # the maximum delay is at least the largest per-synapse delay as it is actually represented (the float32 product maxk*dt may
    # exceed the double product by one ulp, and with tolerance 0 a selector beyond the maximum is out of bounds)
    maxdelay = max(maxk * dt, float(torch.tensor(float(maxk)) * dt))
    W = weight_for(conn, F)
    pos = free_positions(conn, F)
    isconv = conn in CONV_GEOM
    insize = CONV_GEOM[conn][0] * CONV_GEOM[conn][1] if isconv else 2
    hs = histories(T, insize)
    B = len(hs)
    if alphabet_override is not None:
        alphabet = list(alphabet_override)
    elif fractional:
        alphabet = [k / 2 for k in range(0, 2 * maxk + 1)]
    else:
        alphabet = list(range(0, maxk + 1))
    # input tensors per step: (B, *inshape)
    xs = []
    for t in range(T):
        x = torch.tensor([h[t] for h in hs], dtype=torch.bool)
        xs.append(x.reshape(B, 1, CONV_GEOM[conn][0], CONV_GEOM[conn][1]) if isconv else x)
    cfg = {"conn": conn, "synapse": skind_b, "dt": dt, "max_delay": maxdelay, "maxk": maxk, "fractional": fractional, "T": T, "F": F,
           "batch=histories": B, "interp_tol": tol, "delay_alphabet": alphabet_override, "interp_mode": mode, "constructed_with_dt": dt_from, "float64": float64, "constructed_with_max_delay": maxdelay_from}
    for assign in itertools.product(alphabet, repeat=len(pos)):
        if only_assign is not None and list(assign) != list(only_assign):
            continue
        D = torch.zeros_like(W)
        for p, k in zip(pos, assign):
            D[p] = float(torch.tensor(float(k)) * dt)
        D1 = D
        for clear_at in ([None] + list(range(1, T)) if reassign_at is None else [None]):
            if only_clear != () and clear_at != only_clear:
                continue
            D = D1
            case = {**cfg, "delays_in_steps": list(assign), "clear_before_step": clear_at, "reassign_at": reassign_at}
            tally.add("evaluations")
            try:
                if maxdelay_from is None:
                    cd = build(conn, skind_b, dt if dt_from is None else dt_from, maxdelay, B, W, D, mode, tol)
                else:
                    cd = build(conn, skind_b, dt, maxdelay_from, B, W, torch.zeros_like(W), mode, tol)
                    cd.synapse.delay = maxdelay
                    cd.delay = D.clone()
                cu = build(conn, skind, dt if dt_from is None else dt_from, None, B, W, D, mode, tol)
                if dt_from is not None:
                    cd.dt = dt
                    cu.dt = dt
                if float64:  # the whole connection converted with .to(float64): delays, histories and selectors follow
                    cd, cu = cd.to(torch.float64), cu.to(torch.float64)
                    # the delays are then given as float64 products k*dt (a float32 product converted to float64 is not a
                    # multiple of the float64 step time any more and would legitimately be read as an off-grid delay)
                    K64 = torch.zeros_like(W, dtype=torch.float64)
                    for p, k in zip(pos, assign):
                        K64[p] = float(k)
                    cd.delay = K64 * dt
                    D = K64 * dt
            except Exception as ex:
                tally.violation(f"exception:construct:{conn}:{skind}:{type(ex).__name__}", case, repr(ex))
                return tally
            cur, spk, cpos, cneg = [], [], [], []
            for t in range(T):
                if clear_at == t:
                    cd.clear()
                    cu.clear()
                    cur, spk, cpos, cneg = [], [], [], []  # contributions from before the clear are rest
                if reassign_at is not None and t == reassign_at:
                    assign2 = [alphabet[(alphabet.index(k) + 1 + j) % len(alphabet)] for j, k in enumerate(assign)]
                    D = torch.zeros_like(W)
                    for p, k in zip(pos, assign2):
                        D[p] = float(torch.tensor(float(k)) * dt)
                    case = {**case, "delays_in_steps_after_reassign": assign2}
                    try:
                        cd.delay = D.clone()
                    except Exception as ex:
                        tally.violation(f"exception:set-delay:{conn}:{skind}:{type(ex).__name__}", {**case, "step": t}, repr(ex))
                        break
                inj = ()
                if skind == "deltaplus":
                    inj = (torch.full(xs[t].shape, 0.25 * (t + 1)),)
                try:
                    xd, xu = xs[t].clone(), xs[t].clone()
                    g = Guard(xd, xu)
                    od = cd(xd, *inj)
                    ou = cu(xu, *inj)
                    # inputs untouched, and no synapse history aliases them (overwritten before the delayed reads)
                    g.release(tally, f"input-mutated:{conn}:{skind}", {**case, "step": t})
                except Exception as ex:
                    tally.violation(f"exception:forward:{conn}:{skind}:{type(ex).__name__}", {**case, "step": t}, repr(ex))
                    break
                cur.append(cu.synapse.current.clone())
                spk.append(cu.synapse.spike.clone().float())
                if skind == "dexp":
                    cpos.append(cu.synapse.pos_current.clone())
                    cneg.append(cu.synapse.neg_current.clone())
                tl = len(cur) - 1
                # expected delayed output
                if conn in ("dense", "lateral"):
                    exp = torch.zeros(B, 2)
                    view_c = torch.zeros(B, 2, 2)
                    view_s = torch.zeros(B, 2, 2)
                    for o in range(2):
                        for i in range(2):
                            s = float(D[o, i]) / dt
                            ci = interp(skind, cur, cpos, cneg, tl, s, mode, dt)[:, i]
                            si = interp("delta", spk, None, None, tl, s, mode, dt)[:, i]
                            exp[:, o] += W[o, i] * ci
                            view_c[:, i, o] = ci
                            view_s[:, i, o] = si
                elif conn == "direct":
                    exp = torch.zeros(B, 2)
                    view_c = torch.zeros(B, 2, 1)
                    view_s = torch.zeros(B, 2, 1)
                    for n in range(2):
                        s = float(D[n]) / dt
                        ci = interp(skind, cur, cpos, cneg, tl, s, mode, dt)[:, n]
                        exp[:, n] = W[n] * ci
                        view_c[:, n, 0] = ci
                        view_s[:, n, 0] = interp("delta", spk, None, None, tl, s, mode, dt)[:, n]
                else:
                    Fn = W.shape[0]
                    H_, W_, kh, kw_ = CONV_GEOM[conn]
                    OH, OW = H_ - kh + 1, W_ - kw_ + 1
                    NN, LL = kh * kw_, OH * OW
                    exp = torch.zeros(B, Fn, OH, OW)
                    view_c = torch.zeros(B, NN, LL, Fn)
                    view_s = torch.zeros(B, NN, LL, Fn)
                    for f in range(Fn):
                        for n in range(NN):
                            i, j = divmod(n, kw_)
                            s = float(D[f, 0, i, j]) / dt
                            ci = interp(skind, cur, cpos, cneg, tl, s, mode, dt)[:, n, :]  # (B, L)
                            exp[:, f] += (W[f, 0, i, j] * ci).reshape(B, OH, OW)
                            view_c[:, n, :, f] = ci
                            view_s[:, n, :, f] = interp("delta", spk, None, None, tl, s, mode, dt)[:, n, :]
                def bad(a, b):
                    return a.shape != b.shape or not torch.allclose(a.to(torch.float64), b.to(torch.float64), rtol=1e-5, atol=1e-5)

                if bad(od, exp):
                    idx = (od - exp).abs().reshape(B, -1).amax(1).argmax().item() if od.shape == exp.shape else 0
                    tally.violation(f"delayed-output:{conn}:{skind}:{'frac' if fractional else 'grid'}", {**case, "step": t, "history": [list(x) for x in hs[idx]]},
                                    f"step {t}, history {hs[idx]}: delayed output {od[idx].reshape(-1).tolist() if od.shape == exp.shape else tuple(od.shape)}, "
                                    f"time-shifted undelayed reference {exp[idx].reshape(-1).tolist()}", exp[idx].tolist(), od[idx].tolist() if od.shape == exp.shape else None)
                    break
                try:
                    sc, ss = cd.syncurrent, cd.synspike
                except Exception as ex:
                    tally.violation(f"exception:synviews:{conn}:{skind}:{type(ex).__name__}", {**case, "step": t}, repr(ex))
                    break
                if all(k == 0 for k in assign) and maxk and False:
                    pass
                if cd.delayedby:
                    if bad(sc, view_c):
                        tally.violation(f"syncurrent-view:{conn}:{skind}", {**case, "step": t}, f"syncurrent {tuple(sc.shape)} differs from the shifted undelayed currents {tuple(view_c.shape)}")
                        break
                    if bad(ss.float(), view_s):
                        tally.violation(f"synspike-view:{conn}:{skind}", {**case, "step": t}, f"synspike {tuple(ss.shape)} differs from the shifted undelayed spikes")
                        break
                # zero delays are indistinguishable from no delay (bitwise)
                # (not bitwise: the delayed path sums the receptive field with einsum, the undelayed one with matmul, and the
                # two may associate a 4-term float sum differently)
                if all(k == 0 for k in assign) and reassign_at is None and bad(od, ou):
                    tally.violation(f"zero-delay!=undelayed:{conn}:{skind}", {**case, "step": t}, "all-zero delays differ from the connection built without delays")
                    break
            if any(k > 0 for k in assign):
                tally.mark("nontrivial", (conn, skind, dt, maxk, fractional, assign, clear_at, reassign_at))
    tally.add("histories", B)
    tally.sample({**cfg, "delay_alphabet_in_steps": alphabet, "free_delay_entries": len(pos)})
    return tally


def zero_maxdelay_shard(conn, skind, T):
    """a connection constructed with a maximum delay of exactly 0.0 is documented to behave as undelayed: same outputs and views
    as the connection constructed without a delay, for every input history"""
    tally = Tally()
    W = weight_for(conn, 2)
    isconv = conn in CONV_GEOM
    insize = CONV_GEOM[conn][0] * CONV_GEOM[conn][1] if isconv else 2
    hs = histories(T, insize)
    B = len(hs)
    case = {"conn": conn, "synapse": skind, "max_delay": 0.0, "T": T, "batch=histories": B}
    tally.add("evaluations")
    try:
        cz = build(conn, skind, 1.0, 0.0, B, W, torch.zeros_like(W))
        cu = build(conn, skind, 1.0, None, B, W, torch.zeros_like(W))
        for t in range(T):
            x = torch.tensor([h[t] for h in hs], dtype=torch.bool)
            x = x.reshape(B, 1, CONV_GEOM[conn][0], CONV_GEOM[conn][1]) if isconv else x
            inj = (torch.full(x.shape, 0.25 * (t + 1)),) if skind == "deltaplus" else ()
            oz, ou = cz(x.clone(), *inj), cu(x.clone(), *inj)
            if oz.shape != ou.shape or not torch.allclose(oz, ou, rtol=1e-5, atol=1e-5):
                tally.violation(f"zero-maxdelay!=undelayed:{conn}:{skind}", {**case, "step": t}, f"step {t}: outputs differ from the undelayed connection")
                break
            if not torch.allclose(cz.syncurrent.reshape(B, -1), cu.syncurrent.reshape(B, -1), rtol=1e-5, atol=1e-5):
                tally.violation(f"zero-maxdelay:syncurrent:{conn}:{skind}", {**case, "step": t}, "syncurrent differs from the undelayed connection")
                break
    except Exception as ex:
        tally.violation(f"exception:zero-maxdelay:{conn}:{skind}:{type(ex).__name__}", case, f"{type(ex).__name__}: {ex}", None, repr(ex))
    tally.mark("nontrivial", ("zero-maxdelay", conn, skind))
    tally.add("histories", B)
    return tally


def run(rep):
    quick = rep.tier == "quick"
    T = 3 if quick else 5
    jobs = []
    for conn in ("dense", "direct", "lateral", "conv"):
        for skind in ("delta", "deltaplus", "exp", "dexp"):
            for dt in (1.0, 1.3):
                for maxk in (1, 2):
                    F = 2
                    if quick and conn in ("dense", "conv") and dt == 1.3 and maxk == 2:
                        F = 1 if conn == "conv" else 2
                    jobs.append((shard, (conn, skind, dt, maxk, False, T, F)))
                # off-grid delays read the synapse's interpolated history
                if dt == 1.0:
                    if conn in ("direct", "lateral"):
                        jobs.append((shard, (conn, skind, dt, 2, True, T, 2)))
                    elif conn == "conv":
                        jobs.append((shard, (conn, skind, dt, 2 if not quick else 1, True, T, 1)))
                    elif not quick:
                        jobs.append((shard, (conn, skind, dt, 1, True, T, 2)))
    # the synapses' in-place option under delays (the stored history must not be touched by the step that extends it)
    for conn in ("direct", "dense"):
        for skind in ("delta+ip", "deltaplus+ip", "exp+ip", "dexp+ip"):
            jobs.append((shard, (conn, skind, 1.0, 2, conn == "direct", T, 2)))
    # delays of three steps at the non-representable step time 1.3 (float32(3*1.3) != 3*float32(1.3)): defined only with a
    # tolerance that dominates rounding, which the synapse then has to honour for currents AND spikes
    for skind in ("delta", "exp"):
        jobs.append((shard, ("direct", skind, 1.3, 3, False, T + 1, 2, None, (), 1e-6)))
    # ... and of 3, 6 and 7 steps, the multiples whose float32 product differs from the float32 step time times k
    jobs.append((shard, ("direct", "delta", 1.3, 7, False, 8, 2, None, (), 1e-6, (0, 3, 6, 7))))
    # delays replaced through the setter in the middle of a run (after the selector / views were used at least once)
    for conn in ("dense", "direct", "lateral", "conv"):
        for skind in ("delta", "exp") if quick else ("delta", "deltaplus", "exp", "dexp"):
            for r in (1, 2):
                jobs.append((shard, (conn, skind, 1.0, 2, False, 3 if quick else 4, 1 if conn == "conv" else 2, None, (), 0.0, None, r)))
    # 'nearest' interpolation of the spike history at quarter-step delays (no ties): currents and spikes have separate modes
    for conn in ("direct", "lateral"):
        for skind in ("delta", "exp", "dexp"):
            jobs.append((shard, (conn, skind, 1.0, 2, True, T, 2, None, (), 0.0, (0, 0.25, 0.75, 1.25), None, "nearest")))
    # step time assigned through the setter after construction, with and without a change of the record size
    for skind in ("delta", "exp"):
        jobs.append((shard, ("direct", skind, 0.5, 2, False, T, 2, None, (), 0.0, None, None, "previous", 1.0)))
        jobs.append((shard, ("direct", skind, 0.75, 2, False, T, 2, None, (), 0.0, (0, 1), None, "previous", 1.0)))
        jobs.append((shard, ("dense", skind, 1.3, 2, False, T, 2, None, (), 1e-6, (0, 1), None, "previous", 1.0)))
    # exact on-grid delays of 3 and 6 steps at the non-representable step time 1.7 with tolerance 0 (float32(k*1.7)/1.7 is not an
    # integer, yet 1.7*k reproduces the stored delay bit for bit, so "within tolerance 0 of a multiple of the step time" is decided
    # exactly), in float32 and for a connection converted to float64
    for skind in ("delta", "exp"):
        for f64 in (False, True):
            jobs.append((shard, ("direct", skind, 1.7, 6, False, 7, 2, None, (), 0.0, (0, 3, 6), None, "previous", None, f64)))
    # the maximum delay raised through the synapse's setter after construction (from 0, from half a step, from one step), to one
    # and to two steps
    for conn in ("dense", "direct"):
        for skind in ("delta", "deltaplus", "exp", "dexp"):
            for mfrom, mk in ((0.0, 1), (0.5, 1), (1.0, 2), (0.0, 2)):
                jobs.append((shard, (conn, skind, 1.0, mk, False, T, 2, None, (), 0.0, None, None, "previous", None, False, mfrom)))
    for conn in ("dense", "direct", "lateral", "conv", "conv22"):
        for skind in ("delta", "deltaplus", "exp", "dexp"):
            jobs.append((zero_maxdelay_shard, (conn, skind, 3 if conn != "conv22" else 2)))
    # a 2x2 kernel: row/column order of the per-kernel-element delays matters (2x3 input, 64 input letters -> shorter histories)
    for skind in ("delta", "exp") if quick else ("delta", "deltaplus", "exp", "dexp"):
        jobs.append((shard, ("conv22", skind, 1.0, 1 if quick else 2, False, 2, 1)))
    tally = run_shards(jobs, seed=rep.seed)
    rep.tally.merge(tally)
    c = tally.counts
    rep.assumptions += [
        "the undelayed connection's synapse state is the reference for each presynaptic contribution; only the shift is checked here "
        "(the currents themselves are C04, the linear map C05)",
        "all boolean histories of length T are run as the batch dimension (sample b = history b)",
        "dt=1.3 uses delays float32(k*1.3); comparison tolerance 1e-5",
    ]
    cov = {
        "states": c.get("evaluations", 0) * T,
        "transitions": c.get("evaluations", 0) * T,
        "traces_validated_against_impl": c.get("evaluations", 0) * 4 ** T,
        "delay_assignment_runs": c.get("evaluations", 0),
        "history_length": T,
        "exhaustive": True,
        "evaluations": c.get("evaluations", 0),
        "distinct_nontrivial": len(tally.sets.get("nontrivial", ())),
        "rule": "every per-synapse delay assignment over {0..max} steps (and half-steps in the fractional shards) x every clear position x "
                "every boolean history of length T (as batch) for 4 connection types x 4 synapse types x dt {1,1.3} x max delay {dt,2dt}; "
                "non-trivial = distinct (config, assignment, clear position) with at least one non-zero delay",
    }
    return rep.finish(cov, floors={"delay_assignment_runs": 2000, "distinct_nontrivial": 1500})


def replay(case):
    t = shard(case["conn"], case["synapse"], case["dt"], case["maxk"], case["fractional"], case["T"], case.get("F", 2),
              only_assign=case["delays_in_steps"], only_clear=case["clear_before_step"], tol=case.get("interp_tol", 0.0), reassign_at=case.get("reassign_at"),
              mode=case.get("interp_mode", "previous"), dt_from=case.get("constructed_with_dt"), float64=case.get("float64", False), maxdelay_from=case.get("constructed_with_max_delay"),
              alphabet_override=case.get("delay_alphabet"))
    return {"violations": [[v["key"], v["message"]] for v in t.violations]}
