"""C16 - state hooks fire exactly when armed; clamping / normalisation post-conditions.

Part A (E1, fixpoint): product of the real hook objects with a 5-bit FSM
(registered, trainexec, evalexec, module training, alive). Every event of the alphabet is executed
from every reachable state for every hook kind and initial flag combination; oracle = probe call
delta, position relative to forward, number of live handles on the module.
Part B (E3): Clamping / Normalization over complete small grids of tensors, bounds, orders, scales, dims.
"""

from __future__ import annotations

import gc
import itertools
import math

import torch
import torch.nn as nn

import inferno
from inferno import Hook, ContextualHook, StateHook
from inferno.neural.hooks import Clamping, Normalization

from mc.common import Tally
from mc.explore import explore
from mc.pool import run_shards

ID = "C16"
LEVEL = "model_checking"


class Target(nn.Module):
    def __init__(self, log):
        super().__init__()
        self.log = log
        self.w_ = nn.Parameter(torch.tensor([5.0, -5.0, 0.25]), requires_grad=False)

    @property
    def w(self):
        return self.w_

    @w.setter
    def w(self, value):  # like inferno's WeightMixin: assignment goes to .data
        self.w_.data = value

    def forward(self, x=None):
        self.log.append("forward")
        return x


class CtxProbe(ContextualHook):
    def __init__(self, log, pre, post, **kw):
        self._log = log
        ContextualHook.__init__(self, prehook="on_pre" if pre else None, posthook="on_post" if post else None, **kw)

    def on_pre(self, module, *a, **k):
        self._log.append("pre")

    def on_post(self, module, *a, **k):
        self._log.append("post")


class StateProbe(StateHook):
    def __init__(self, module, log, **kw):
        StateHook.__init__(self, module, **kw)
        self._plog = log
        self._tag = "pre" if kw.get("as_prehook") else "post"

    def hook(self, module):
        self._plog.append(self._tag)
        return torch.full((1,), 9.0)  # a status value; documented: a state hook only acts on module state, "any output will be ignored"


class St:
    pass


KINDS = ("hook-pre", "hook-post", "hook-both", "ctx-pre", "ctx-post", "ctx-both", "state-pre", "state-post",
         "clamp-pre", "clamp-post")


class HookSystem:
    def __init__(self, kind, tr0, ev0):
        self.kind, self.tr0, self.ev0 = kind, tr0, ev0
        self.config = {"kind": kind, "train_update": tr0, "eval_update": ev0}
        self.pre = kind.endswith("pre") or kind.endswith("both")
        self.post = kind.endswith("post") or kind.endswith("both")
        self.is_state = kind.startswith("state") or kind.startswith("clamp")
        self.is_clamp = kind.startswith("clamp")

    def fresh(self):
        st = St()
        st.log = []
        st.m = Target(st.log)
        log = st.log
        kw = dict(train_update=self.tr0, eval_update=self.ev0)
        if self.kind.startswith("hook"):
            st.h = Hook(prehook=(lambda module, *a, **k: log.append("pre")) if self.pre else None,
                        posthook=(lambda module, *a, **k: log.append("post")) if self.post else None, **kw)
        elif self.kind.startswith("ctx"):
            st.h = CtxProbe(log, self.pre, self.post, **kw)
        elif self.kind.startswith("state"):
            st.h = StateProbe(st.m, log, as_prehook=self.pre, **kw)
        else:
            st.h = Clamping(st.m, "w", min=-1.0, max=1.0, as_prehook=self.pre, **kw)
        # model
        st.reg, st.tr, st.ev, st.training, st.alive = False, self.tr0, self.ev0, True, True
        st.regs = 0  # completed registrations (capped in the key): re-registration is a distinct hidden state
        return st

    def build(self, history):
        st = self.fresh()
        for op in history:
            self.step(st, op, check=False)
        return st

    def queries(self, st):
        return ()

    def mutations(self, st):
        yield ("call",)
        yield ("module.train",)
        yield ("module.eval",)
        if st.alive:
            yield ("register",)
            yield ("deregister",)
            for b in (False, True):
                yield ("trainexec", b)
                yield ("evalexec", b)
            if self.is_state:
                for force in (False, True):
                    for ign in (False, True):
                        yield ("manual", force, ign)
            yield ("delete",)

    def armed(self, st):
        return st.alive and st.reg and ((st.tr and st.training) or (st.ev and not st.training))

    def handles(self, st):
        return len(st.m._forward_hooks) + len(st.m._forward_pre_hooks)

    def probe_begin(self, st):
        del st.log[:]
        if self.is_clamp:
            st.m.w.data = torch.tensor([5.0, -5.0, 0.25])

    def probe_fired(self, st):
        """list of fired tags in order, including 'forward'"""
        if self.is_clamp:
            w = st.m.w.detach().tolist()
            if w == [1.0, -1.0, 0.25]:
                return ["clamped"]
            if w == [5.0, -5.0, 0.25]:
                return []
            return ["garbled:" + repr(w)]
        return list(st.log)

    def step(self, st, op, check=True):
        bad = []
        name = op[0]
        kind = self.kind
        self.probe_begin(st)
        exp_log = None
        try:
            if name == "call":
                xin = torch.zeros(1)
                yout = st.m(xin)
                if check and (not torch.is_tensor(yout) or not torch.equal(yout, torch.zeros(1)) or not torch.equal(xin, torch.zeros(1))):
                    bad.append(("call:module-io-altered-by-hook", f"the module returned {yout!r} for a zero input (forward is the identity; a state hook's "
                                "return value must be ignored)", [0.0], yout.tolist() if torch.is_tensor(yout) else repr(yout)))
                fire = self.armed(st)
                if self.is_clamp:
                    exp_log = ["clamped"] if fire else []
                else:
                    exp_log = (["pre"] if fire and self.pre else []) + ["forward"] + (["post"] if fire and self.post else [])
            elif name == "module.train":
                st.m.train()
                st.training = True
                exp_log = []
            elif name == "module.eval":
                st.m.eval()
                st.training = False
                exp_log = []
            elif name == "register":
                try:
                    if self.is_state:
                        st.h.register()
                    else:
                        st.h.register(st.m)
                except RuntimeError:
                    if not st.reg:
                        raise
                if not st.reg:
                    st.regs += 1
                st.reg = True
                exp_log = []
            elif name == "deregister":
                st.h.deregister()
                st.reg = False
                exp_log = []
            elif name == "trainexec":
                st.h.trainexec = op[1]
                st.tr = op[1]
                exp_log = []
            elif name == "evalexec":
                st.h.evalexec = op[1]
                st.ev = op[1]
                exp_log = []
            elif name == "manual":
                _, force, ign = op
                st.h(force=force, ignore_mode=ign)
                fire = (st.reg or force) and (ign or (st.tr and st.training) or (st.ev and not st.training))
                if self.is_clamp:
                    exp_log = ["clamped"] if fire else []
                else:
                    exp_log = (["pre"] if self.pre else ["post"]) if fire else []
            elif name == "delete":
                st.h = None
                gc.collect()
                st.alive = False
                st.reg = False
                exp_log = []
        except Exception as ex:
            if not check:
                raise
            return [(f"exception:{name}:{kind}:{type(ex).__name__}", f"{op} raised {type(ex).__name__}: {ex}", None, repr(ex))]
        if not check:
            return bad
        got = self.probe_fired(st)
        if got != exp_log:
            if len(got) > len(exp_log):
                what = "fired-unarmed"
            elif len(got) < len(exp_log):
                what = "missed"
            else:
                what = "order"
            bad.append((f"{what}:{name}:{kind}", f"{op} in model state reg={st.reg} trainexec={st.tr} evalexec={st.ev} "
                        f"training={st.training} alive={st.alive}: observed {got}, expected {exp_log}", exp_log, got))
        nh = self.handles(st)
        exp_h = (int(self.pre) + int(self.post)) if (st.reg and st.alive) else 0
        if nh != exp_h:
            bad.append((f"handles:{name}:{kind}", f"after {op}: {nh} live handles on the module, expected {exp_h}", exp_h, nh))
        if st.alive and st.h.registered != st.reg:
            bad.append((f"registered-flag:{name}:{kind}", f"after {op}: registered={st.h.registered}, model {st.reg}", st.reg, st.h.registered))
        if st.alive and (bool(st.h.trainexec), bool(st.h.evalexec)) != (st.tr, st.ev):
            bad.append((f"flags:{name}:{kind}", f"after {op}: flags {(st.h.trainexec, st.h.evalexec)} model {(st.tr, st.ev)}", None, None))
        return bad

    def canon(self, st):
        # the number of completed register/deregister cycles is kept (capped at 3): the implementation carries
        # per-registration hidden state (handles, finalizer) that the five model bits do not determine
        return (st.reg, st.tr, st.ev, st.training, st.alive, min(st.regs, 3))


def fsm_shard(kind, tr0, ev0):
    tally = Tally()
    sysm = HookSystem(kind, tr0, ev0)

    def nontrivial(st, op):
        if op[0] in ("call", "manual"):
            return (kind, op, st.reg, st.tr, st.ev, st.training, st.alive)
        return None

    res = explore(sysm, tally, nontrivial=nontrivial)
    if res["fixpoint"]:
        tally.add("fixpoint_configs")
    return tally


class TwoHookSystem:
    """two state hooks on ONE module: events on one never change the firing, order or handles of the other;
    `prepend` decides the relative order among same-position hooks"""

    def __init__(self, pre1, pre2, prepend2):
        self.pre = (pre1, pre2)
        self.prepend2 = prepend2
        self.config = {"kind": "two-state-hooks", "as_prehook": [pre1, pre2], "second_prepends": prepend2}

    def build(self, history):
        st = St()
        st.log = []
        st.m = Target(st.log)

        class P(StateHook):
            def __init__(s2, module, tag, **kw):
                StateHook.__init__(s2, module, **kw)
                s2._t = tag

            def hook(s2, module):
                st.log.append(s2._t)

        st.h = [P(st.m, "h0", as_prehook=self.pre[0]), P(st.m, "h1", as_prehook=self.pre[1], prepend=self.prepend2)]
        st.reg = [False, False]
        st.alive = [True, True]
        st.order = []  # registration order of currently registered hooks
        st.training = True
        for op in history:
            self.step(st, op, check=False)
        return st

    def queries(self, st):
        return ()

    def mutations(self, st):
        yield ("call",)
        yield ("module.eval",)
        yield ("module.train",)
        for i in (0, 1):
            if st.alive[i]:
                yield ("register", i)
                yield ("deregister", i)
                yield ("delete", i)

    def step(self, st, op, check=True):
        del st.log[:]
        name = op[0]
        exp = None
        try:
            if name == "call":
                st.m(torch.zeros(1))
                pres, posts = [], []
                for i in st.order:
                    tgt = pres if self.pre[i] else posts
                    if i == 1 and self.prepend2:
                        tgt.insert(0, f"h{i}")
                    else:
                        tgt.append(f"h{i}")
                exp = pres + ["forward"] + posts
            elif name == "module.eval":
                st.m.eval()
                st.training = False
                exp = []
            elif name == "module.train":
                st.m.train()
                st.training = True
                exp = []
            elif name == "register":
                i = op[1]
                st.h[i].register()
                if not st.reg[i]:
                    st.reg[i] = True
                    st.order.append(i)
                exp = []
            elif name == "deregister":
                i = op[1]
                st.h[i].deregister()
                if st.reg[i]:
                    st.reg[i] = False
                    st.order.remove(i)
                exp = []
            elif name == "delete":
                i = op[1]
                st.h[i] = None
                gc.collect()
                st.alive[i] = False
                if st.reg[i]:
                    st.reg[i] = False
                    st.order.remove(i)
                exp = []
        except Exception as ex:
            if not check:
                raise
            return [(f"exception:two-hooks:{name}:{type(ex).__name__}", f"{op} raised {type(ex).__name__}: {ex}", None, repr(ex))]
        if not check:
            return []
        bad = []
        got = list(st.log)
        if got != exp:
            what = "order" if sorted(got) == sorted(exp) else ("fired-unarmed" if len(got) > len(exp) else "missed")
            bad.append((f"two-hooks:{what}:{name}", f"{op} with registered order {st.order}: observed {got}, expected {exp}", exp, got))
        nh = len(st.m._forward_hooks) + len(st.m._forward_pre_hooks)
        if nh != len(st.order):
            bad.append((f"two-hooks:handles:{name}", f"after {op}: {nh} live handles, expected {len(st.order)}", len(st.order), nh))
        return bad

    def canon(self, st):
        return (tuple(st.order), tuple(st.alive), st.training)


def two_hook_shard(pre1, pre2, prepend2):
    tally = Tally()
    sysm = TwoHookSystem(pre1, pre2, prepend2)

    def nontrivial(st, op):
        if op[0] == "call":
            return ("two", pre1, pre2, prepend2, tuple(st.order))
        return None

    res = explore(sysm, tally, nontrivial=nontrivial)
    if res["fixpoint"]:
        tally.add("fixpoint_configs2")
    return tally


# ---------------------------------------------------------------------------------------
# Part B


class Sub(nn.Module):
    """attribute exposed the way inferno's parameter mixins do: a property whose setter assigns .data"""

    def __init__(self, t, as_param):
        super().__init__()
        self.as_param = as_param
        if as_param:
            self.w_ = nn.Parameter(t.clone(), requires_grad=False)
        else:
            self.register_buffer("w_", t.clone())

    @property
    def w(self):
        return self.w_

    @w.setter
    def w(self, value):
        if self.as_param:
            self.w_.data = value
        else:
            self.w_ = value

    def forward(self):
        return None


class Holder(Sub):
    """nested = number of sub-module levels between the hooked module and the attribute (attribute path 'w', 'sub.w', 'sub.sub.w')"""

    def __init__(self, t, as_param, nested):
        Sub.__init__(self, t, as_param)
        if nested:
            self.sub = Holder(t, as_param, int(nested) - 1)

    def leaf(self, nested):
        m = self
        for _ in range(int(nested)):
            m = m.sub
        return m


def attr_path(nested):
    return "sub." * int(nested) + "w"


VALS = (-2.0, -0.5, 0.0, 0.5, 3.0)


def pnorm(vals, p):
    a = [abs(v) for v in vals]
    if p == float("inf"):
        return max(a)
    return sum(x ** p for x in a) ** (1.0 / p)


def slices(shape, dim):
    """index lists of the groups over which the norm is taken"""
    idx = list(itertools.product(*[range(s) for s in shape]))
    nd = len(shape)
    if dim is None:
        return [idx]
    dims = (dim,) if isinstance(dim, int) else tuple(dim)
    dims = tuple(d % nd for d in dims)
    groups = {}
    for i in idx:
        key = tuple(v for k, v in enumerate(i) if k not in dims)
        groups.setdefault(key, []).append(i)
    return list(groups.values())


def post_shard(part, tier, sel=None):
    tally = Tally()
    quick = tier == "quick"
    shape = (2, 2)
    tensors = list(itertools.product(VALS, repeat=4))
    if part == "clamp":
        bounds = [(None, 1.0), (-1.0, None), (-1.0, 1.0), (0.0, 0.5), (-3.0, -0.25), (0.5, 2.5)]
        for (lo, hi) in (bounds if sel is None else [bounds[sel]]):
            for as_param, nested, pre in itertools.product((False, True), (0, 1, 2), (False, True)):
                if quick and nested and not as_param:
                    continue
                if quick and nested == 2 and pre:
                    continue
                for tv in tensors:
                    t = torch.tensor(tv).reshape(shape)
                    m = Holder(t, as_param, nested)
                    case = {"hook": "Clamping", "min": lo, "max": hi, "tensor": tv, "param": as_param, "nested": nested, "attr": attr_path(nested), "pre": pre}
                    try:
                        h = Clamping(m, attr_path(nested), min=lo, max=hi, as_prehook=pre)
                        h.register()
                        m()
                    except Exception as ex:
                        tally.violation(f"exception:clamp:depth{nested}:{type(ex).__name__}", case, f"hook on {attr_path(nested)!r} raised {type(ex).__name__}: {ex}", None, repr(ex))
                        break
                    w = m.leaf(nested).w.detach()
                    tally.add("evaluations")
                    vals = w.reshape(-1).tolist()
                    okk = all((lo is None or v >= lo) and (hi is None or v <= hi) for v in vals)
                    exp = [min(max(v, lo if lo is not None else -math.inf), hi if hi is not None else math.inf) for v in tv]
                    if any(v < (lo if lo is not None else -math.inf) or v > (hi if hi is not None else math.inf) for v in tv):
                        tally.mark("nontrivial", ("clamp", lo, hi, tv))
                    if not okk:
                        tally.violation("clamp:out-of-range", case, f"after the hook ran the attribute is {vals}", [lo, hi], vals)
                    elif vals != exp:
                        tally.violation("clamp:value", case, f"clamped attribute {vals}, expected {exp}", exp, vals)
                    if as_param and not isinstance(m.leaf(nested).w, nn.Parameter):
                        tally.violation("clamp:param-replaced", case, "parameter replaced by a plain tensor", None, None)
                    # the target is then modified IN PLACE (same tensor object, new contents) and the module called again:
                    # every run of the hook re-establishes the bound, not only the first
                    with torch.no_grad():
                        m.leaf(nested).w.data.mul_(-3.0).add_(0.25)
                    src2 = m.leaf(nested).w.detach().reshape(-1).tolist()
                    m()
                    vals2 = m.leaf(nested).w.detach().reshape(-1).tolist()
                    exp2 = [min(max(v, lo if lo is not None else -math.inf), hi if hi is not None else math.inf) for v in src2]
                    if vals2 != exp2:
                        tally.violation("clamp:second-run-after-inplace-change", {**case, "after_inplace_change": src2}, f"second call: attribute {vals2}, expected {exp2}", exp2, vals2)
                    h.deregister()
    else:
        orders = (1, 2, 3, float("inf"), 0.5)
        scales = (1.0, -2.0, 0.5, 3 + 4j)  # scale is documented as float | complex: the norm equals its magnitude
        dims = (None, 0, 1, -1, (0, 1))
        # 3-D and 1-D targets with the same four entries: on them -1, -2 and 1 are different axes, and a size-1 axis exists
        shape_dims = [((2, 2), d) for d in dims]
        for p in (orders if sel is None else [orders[sel]]):
            for sc in scales:
                extra = [((2, 1, 2), d) for d in (0, 1, 2, -1, -2, (0, 2), (1, 2))] + [((4,), d) for d in (None, 0, -1)] if sc == 1.0 else []
                for shape, dim in shape_dims + extra:
                    for as_param in ((False, True) if ((not quick or dim in (None, 0)) and shape == (2, 2)) else (True,)):
                        for tv in tensors:
                            t = torch.tensor(tv).reshape(shape)
                            if shape == (2, 2) and sc in (1.0, -2.0):
                                # same logical values in a non-contiguous (transposed) memory layout: the target of a hook need not be contiguous
                                t = t.t().contiguous().t()
                            nested = 2 if (dim == -1 and sc == 0.5) else (1 if dim == 0 else 0)  # attribute path depth varies over the grid
                            m = Holder(t, as_param, nested)
                            case = {"hook": "Normalization", "order": p, "scale": sc, "dim": dim, "shape": list(shape), "tensor": tv, "param": as_param, "attr": attr_path(nested)}
                            try:
                                h = Normalization(m, attr_path(nested), p, sc, dim)
                                h.register()
                                m()
                            except Exception as ex:
                                tally.violation(f"exception:norm:depth{nested}:{type(ex).__name__}", case, f"hook on {attr_path(nested)!r} raised {type(ex).__name__}: {ex}", None, repr(ex))
                                break
                            w = m.leaf(nested).w.detach()
                            w = w.to(torch.complex128) if w.is_complex() else w.to(torch.float64)
                            tally.add("evaluations")
                            for grp in slices(shape, dim):
                                src = [float(t[i]) for i in grp]
                                got = [complex(w[i]) if w.is_complex() else float(w[i]) for i in grp]
                                if all(v == 0 for v in src):
                                    if any(v != 0 for v in got):
                                        tally.violation("norm:zero-vector-changed", case, f"zero slice became {got}", src, got)
                                    continue
                                tally.mark("nontrivial", ("norm", p, sc, dim, shape, tuple(src)))
                                n = pnorm(got, p)
                                if abs(n - abs(sc)) > 1e-4 * abs(sc):
                                    tally.violation(f"norm:wrong-norm:p={p}", case, f"slice {src} -> {got} has {p}-norm {n}, expected {abs(sc)}", abs(sc), n)
                                else:
                                    # direction preserved up to the sign of scale
                                    k = max(range(len(src)), key=lambda j: abs(src[j]))
                                    if isinstance(sc, complex):
                                        # direction: every entry is the source entry times one common complex factor
                                        f = got[k] / src[k]
                                        if any(abs(g - f * x) > 1e-4 * abs(sc) for g, x in zip(got, src)):
                                            tally.violation("norm:direction", case, f"slice {src} -> {got} is not the source times one factor", None, None)
                                    elif (got[k] > 0) != ((src[k] > 0) == (sc > 0)):
                                        tally.violation("norm:direction", case, f"slice {src} -> {got} with scale {sc}", None, None)
                            # second call after the target was changed in place (same object, new contents): normalised again
                            if not isinstance(sc, complex):
                                with torch.no_grad():
                                    m.leaf(nested).w.data.mul_(3.0).add_(0.5)
                                t2 = m.leaf(nested).w.detach().clone()
                                m()
                                w2 = m.leaf(nested).w.detach().to(torch.float64)
                                for grp in slices(shape, dim):
                                    src2 = [float(t2[i]) for i in grp]
                                    if all(v == 0 for v in src2):
                                        continue
                                    n2 = pnorm([float(w2[i]) for i in grp], p)
                                    if abs(n2 - abs(sc)) > 1e-4 * abs(sc):
                                        tally.violation(f"norm:second-run-after-inplace-change", {**case, "after_inplace_change": src2},
                                                        f"second call: slice {src2} has {p}-norm {n2}, expected {abs(sc)}", abs(sc), n2)
                                        break
                            h.deregister()
    tally.sample({"part": part, "tensors": len(tensors)})
    return tally


def run(rep):
    jobs = []
    for kind in KINDS:
        for tr0 in (True, False):
            for ev0 in (True, False):
                jobs.append((fsm_shard, (kind, tr0, ev0)))
    for pre1 in (False, True):
        for pre2 in (False, True):
            for prepend2 in (False, True):
                jobs.append((two_hook_shard, (pre1, pre2, prepend2)))
    for i in range(6):
        jobs.append((post_shard, ("clamp", rep.tier, i)))
    for i in range(5):
        jobs.append((post_shard, ("norm", rep.tier, i)))
    tally = run_shards(jobs, seed=rep.seed)
    rep.tally.merge(tally)
    c = tally.counts
    rep.assumptions += [
        "torch.nn.Module hook dispatch is trusted; gc is disabled and collection is an explicit event",
        "post-condition grids: all 625 tensors of shape (2,2) over {-2,-0.5,0,0.5,3}; orders {1,2,3,inf,0.5}; scales {1,-2,0.5}; "
        "dims {None,0,1,-1,(0,1)}",
    ]
    cov = {
        "states": c.get("states", 0),
        "transitions": c.get("transitions", 0),
        "traces_validated_against_impl": c.get("transitions", 0),
        "max_depth": c.get("max_depth", 0),
        "fsm_configurations": len(KINDS) * 4,
        "two_hook_configurations_at_fixpoint": c.get("fixpoint_configs2", 0),
        "fixpoint_configurations": c.get("fixpoint_configs", 0),
        "exhaustive": c.get("fixpoint_configs", 0) == len(KINDS) * 4,
        "postcondition_evaluations": c.get("evaluations", 0),
        "evaluations": c.get("transitions", 0) + c.get("evaluations", 0),
        "distinct_nontrivial": len(tally.sets.get("nontrivial", ())),
        "rule": "FSM part: BFS to fixpoint of (registered, trainexec, evalexec, training, alive) per hook kind and initial "
                "flags, every event from every state on fresh real objects; non-trivial = distinct (kind, call/manual op, "
                "state) firings decided; post-condition part: full grids",
    }
    return rep.finish(cov, floors={"states": 400, "transitions": 4000, "postcondition_evaluations": 10000})


def replay(case):
    if "history" in case:
        cfg = case["config"]
        sysm = HookSystem(cfg["kind"], cfg["train_update"], cfg["eval_update"])
        st = sysm.fresh()
        for op in case["history"]:
            bad = sysm.step(st, tuple(op), check=True)
            if bad:
                return {"violations": [b[:2] for b in bad], "at": list(op)}
        return {"violations": []}
    t = torch.tensor(case["tensor"]).reshape(2, 2)
    m = Holder(t, case["param"], case.get("nested", False))
    if case["hook"] == "Clamping":
        h = Clamping(m, "sub.w" if case.get("nested") else "w", min=case["min"], max=case["max"], as_prehook=case["pre"])
    else:
        o = float("inf") if case["order"] == "inf" else case["order"]
        d = tuple(case["dim"]) if isinstance(case["dim"], list) else case["dim"]
        h = Normalization(m, "w", o, case["scale"], d)
    h.register()
    m()
    return {"violations": [], "after": (m.sub.w if case.get("nested") else m.w).tolist()}
