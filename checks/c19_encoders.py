"""C19 - spike encoders: shape, silence at zero, refractory gap, reproducibility (E4).

The encoders' only nondeterminism is Tensor.exponential_, torch.poisson and torch.bernoulli. For the
duration of a case these three callables are replaced by an oracle that answers from an enumerated
sequence over a small alphabet (every sequence of length L is tried), respecting what the real
samplers guarantee (poisson(0)==0, bernoulli(0)==0, bernoulli(1)==1, exponential > 0). Enumerating
all answer sequences over-approximates every generator seed for the explored sizes. A second, plain
pass runs the real generator for seeds 0..31 twice each (reproducibility).
"""

from __future__ import annotations

import itertools
import math

import torch

import inferno
from inferno.neural import HomogeneousPoissonEncoder, HomogeneousPoissonApproxEncoder, PoissonIntervalEncoder

from mc.common import Tally, Guard
from mc.pool import run_shards

ID = "C19"
LEVEL = "exploration"

EXP_ALPHABET = (1e-6, 0.5, 1.0, 3.0)
POIS_ALPHABET = (0.0, 1.0, 2.0, 5.0)
BERN_ALPHABET = (0.0, 1.0)


class Env:
    """answers the three sampling primitives from a fixed sequence (cyclic)"""

    def __init__(self):
        self.seq = (1.0,)
        self.ptr = 0
        self.draws = 0
        self.orig = None

    def take(self, n):
        out = [self.seq[(self.ptr + i) % len(self.seq)] for i in range(n)]
        self.ptr += n
        self.draws += n
        return out

    def install(self):
        env = self
        self.orig = (torch.Tensor.exponential_, torch.poisson, torch.bernoulli)

        def fake_exponential_(self_t, lambd=1.0, *, generator=None):
            vals = env.take(self_t.numel())
            self_t.copy_(torch.tensor(vals, dtype=self_t.dtype).reshape(self_t.shape) / lambd)
            return self_t

        def fake_poisson(rates, generator=None):
            vals = torch.tensor(env.take(rates.numel()), dtype=rates.dtype).reshape(rates.shape)
            return torch.where(rates > 0, vals, torch.zeros_like(vals))

        def fake_bernoulli(p, *args, generator=None, **kw):
            vals = torch.tensor(env.take(p.numel()), dtype=p.dtype).reshape(p.shape)
            out = torch.where(p <= 0, torch.zeros_like(vals), torch.where(p >= 1, torch.ones_like(vals), vals))
            return out

        torch.Tensor.exponential_ = fake_exponential_
        torch.poisson = fake_poisson
        torch.bernoulli = fake_bernoulli

    def remove(self):
        torch.Tensor.exponential_, torch.poisson, torch.bernoulli = self.orig


def collect_online(gen):
    """consume an online encoder the way a caller that keeps the slices would: returns (references, copies taken at yield time)"""
    refs, copies = [], []
    for sl in gen:
        refs.append(sl)
        copies.append(sl.clone())
    return refs, copies


def slices_stable(refs, copies):
    """a slice handed to the caller is the caller's: it must not change when later slices are produced"""
    return all(r.shape == c.shape and bool(torch.equal(r, c)) for r, c in zip(refs, copies))


def check_train(tally, case, train_rows, steps, inshape, intens, gap_steps, key_prefix):
    """train_rows: list of per-step tensors (or a stacked tensor)"""
    if isinstance(train_rows, torch.Tensor):
        t = train_rows
        if t.dtype != torch.bool:
            tally.violation(f"{key_prefix}:dtype", case, f"dtype {t.dtype}", "bool", str(t.dtype))
            return
        if tuple(t.shape) != (steps, *inshape):
            tally.violation(f"{key_prefix}:shape", case, f"shape {tuple(t.shape)}, expected {(steps, *inshape)} (time first)", [steps, *inshape], list(t.shape))
            return
        rows = [t[i] for i in range(steps)]
    else:
        rows = train_rows
        if len(rows) != steps:
            tally.violation(f"{key_prefix}:slices", case, f"{len(rows)} slices yielded, expected {steps}", steps, len(rows))
            return
        for r in rows:
            if r.dtype != torch.bool or tuple(r.shape) != tuple(inshape):
                tally.violation(f"{key_prefix}:slice-shape-dtype", case, f"slice {tuple(r.shape)} {r.dtype}", None, None)
                return
    flat = [r.reshape(-1).tolist() for r in rows]
    E = len(flat[0]) if flat else 0
    for e in range(E):
        times = [i for i in range(steps) if flat[i][e]]
        if intens[e] == 0 and times:
            tally.violation(f"{key_prefix}:spike-at-zero-intensity", case, f"element {e} has zero intensity but spikes at steps {times}", [], times)
        for a, b in zip(times, times[1:]):
            if b - a < gap_steps:
                tally.violation(f"{key_prefix}:refractory-gap", case, f"element {e} spikes at steps {a} and {b}: closer than the refractory "
                                f"period of {gap_steps} step(s)", gap_steps, b - a)
                break
    return flat


def shard(enc_kind, dt, steps, freq, tier):
    tally = Tally()
    quick = tier == "quick"
    L = 4 if quick else 6
    env = Env()
    env.install()
    try:
        intens_grid = list(itertools.product((0.0, 0.5, 1.0), repeat=2))
        if enc_kind == "exp":
            refracs = (None, 0, 1, 2, 3)  # 0: an explicit refractory period of 0.0 is accepted by the constructor (at most one spike per step remains)
            comps = (True, False)
            alphabet = EXP_ALPHABET
        elif enc_kind == "interval":
            refracs, comps, alphabet = (None,), (False,), POIS_ALPHABET
        else:
            refracs, comps, alphabet = (None,), (False,), BERN_ALPHABET
            L = min(L + 2, 8)
        for rk in refracs:
            refrac = None if rk is None else rk * dt
            for comp in comps:
                if enc_kind == "exp" and comp and freq * (dt if refrac is None else refrac) >= 1000:
                    continue  # outside the documented domain (frequency * refrac < 1000 when compensating)
                for online in (False, True):
                    if enc_kind == "exp":
                        enc = HomogeneousPoissonEncoder(steps, dt, freq, refrac=refrac, compensate=comp)
                    elif enc_kind == "interval":
                        enc = PoissonIntervalEncoder(steps, dt, freq)
                    else:
                        enc = HomogeneousPoissonApproxEncoder(steps, dt, freq)
                    gap = 1 if rk is None else max(rk, 1)
                    if enc_kind != "exp":
                        gap = 1
                    for intens in intens_grid:
                        x = torch.tensor(intens)
                        for seq in itertools.product(alphabet, repeat=L):
                            env.seq, env.ptr = seq, 0
                            case = {"encoder": enc_kind, "dt": dt, "steps": steps, "frequency": freq, "refrac": refrac, "compensate": comp,
                                    "online": online, "intensities": list(intens), "answers": list(seq)}
                            tally.add("evaluations")
                            try:
                                xin = x.clone()
                                g = Guard(xin)
                                out = enc(xin, online=online)
                                if online:
                                    refs, out = collect_online(out)
                                    if not slices_stable(refs, out):
                                        tally.violation(f"{enc_kind}:online:slice-overwritten", case, "a slice yielded earlier changed while later slices "
                                                        "were produced (the generator re-uses one buffer)")
                                # the caller's intensity tensor comes back untouched (also after an online generator is exhausted)
                                g.release(tally, f"input-mutated:{enc_kind}:{'online' if online else 'offline'}", case)
                            except Exception as ex:
                                tally.violation(f"exception:{enc_kind}:{'online' if online else 'offline'}:{type(ex).__name__}", case,
                                                f"encoder raised {type(ex).__name__}: {ex}", None, repr(ex))
                                break
                            flat = check_train(tally, case, out, steps, (2,), intens, gap, f"{enc_kind}:{'online' if online else 'offline'}")
                            if flat is not None:
                                nsp = sum(sum(r) for r in flat)
                                tally.mark("outcomes", (enc_kind, tuple(tuple(r) for r in flat)))
                                if nsp >= 2:
                                    tally.mark("nontrivial", (enc_kind, dt, steps, freq, refrac, comp, online, intens, seq))
    finally:
        env.remove()
    tally.sample({"encoder": enc_kind, "dt": dt, "steps": steps, "frequency": freq, "answer_alphabet": list(alphabet), "sequence_length": L})
    return tally


def seeds_shard(tier):
    """plain pass with the real generator: same seed => same train; invariants on real draws"""
    tally = Tally()
    nseeds = 32 if tier == "quick" else 128
    for enc_kind in ("exp", "interval", "bern"):
        for dt, steps, freq, refrac in ((1.0, 20, 400.0, 2.0), (0.5, 40, 200.0, None), (1.0, 20, 100.0, 3.0),
                                        (0.1, 60, 1500.0, 0.5), (0.2, 40, 900.0, 1.0)):  # non-dyadic step times: 0.5 ms = 5 steps of 0.1 ms
            for online in (False, True):
                for seed in range(nseeds):
                    outs = []
                    for rep in range(2):
                        g = torch.Generator().manual_seed(seed)
                        if enc_kind == "exp":
                            enc = HomogeneousPoissonEncoder(steps, dt, freq, refrac=refrac, compensate=True, generator=g)
                        elif enc_kind == "interval":
                            enc = PoissonIntervalEncoder(steps, dt, freq, generator=g)
                        else:
                            enc = HomogeneousPoissonApproxEncoder(steps, dt, freq, generator=g)
                        x = torch.tensor([[0.0, 0.25, 1.0], [0.5, 0.0, 0.75]])
                        if seed % 2:  # same intensities in a non-contiguous (transposed) memory layout
                            x = x.t().contiguous().t()
                        case = {"encoder": enc_kind, "dt": dt, "steps": steps, "frequency": freq, "refrac": refrac, "online": online, "seed": seed}
                        tally.add("evaluations")
                        try:
                            o = enc(x.clone(), online=online)
                            if online:
                                refs, o = collect_online(o)
                                if not slices_stable(refs, o):
                                    tally.violation(f"{enc_kind}:online:slice-overwritten", case, "a slice yielded earlier changed while later slices were produced")
                        except Exception as ex:
                            tally.violation(f"exception:{enc_kind}:{'online' if online else 'offline'}:{type(ex).__name__}", case, repr(ex))
                            o = None
                            break
                        outs.append(o)
                    if o is None:
                        break
                    gap = 1 if (refrac is None or enc_kind != "exp") else math.ceil(round(refrac / dt, 6))
                    check_train(tally, case, outs[0], steps, (2, 3), x.reshape(-1).tolist(), gap, f"{enc_kind}:{'online' if online else 'offline'}:real-rng")
                    a = torch.stack(outs[0]) if online else outs[0]
                    b = torch.stack(outs[1]) if online else outs[1]
                    if not torch.equal(a, b):
                        tally.violation(f"{enc_kind}:not-reproducible", case, "same generator seed produced two different trains")
                    if int(a.sum()) >= 2:
                        tally.mark("nontrivial", ("seed", enc_kind, dt, steps, online, seed))
    tally.sample({"part": "real generator", "seeds": nseeds})
    return tally


def reconfig_shard(enc_kind, tier, only_comp=None, only_src_steps=None):
    """The configuration may also be reached through the public setters (dt, steps, refrac, frequency): from every source
    configuration, assign only the attributes that differ from the target - in every order - and require the getters and, under
    every answer sequence, the train to equal those of an encoder constructed with the target configuration."""
    tally = Tally()
    L = 2 if tier == "quick" else 3
    env = Env()
    env.install()
    try:
        if enc_kind == "exp":
            space = [dict(steps=st, dt=dt, refrac=rf, frequency=fq) for st in (4, 6) for dt in (1.0, 0.5) for rf in (None, 1.0, 2.0) for fq in (200.0, 400.0)]
            alphabet = EXP_ALPHABET
            comps = (False, True)
        else:
            space = [dict(steps=st, dt=dt, frequency=fq) for st in (4, 6) for dt in (1.0, 0.5) for fq in (200.0, 400.0)]
            alphabet = POIS_ALPHABET if enc_kind == "interval" else BERN_ALPHABET
            comps = (None,)
            L = L + 1

        def build(cfg, comp):
            if enc_kind == "exp":
                return HomogeneousPoissonEncoder(cfg["steps"], cfg["dt"], cfg["frequency"], refrac=cfg["refrac"], compensate=comp)
            if enc_kind == "interval":
                return PoissonIntervalEncoder(cfg["steps"], cfg["dt"], cfg["frequency"])
            return HomogeneousPoissonApproxEncoder(cfg["steps"], cfg["dt"], cfg["frequency"])

        x = torch.tensor([0.5, 1.0, 0.0])
        seqs = list(itertools.product(alphabet, repeat=L))
        for comp in comps:
            if only_comp is not None and comp != only_comp:
                continue
            for src, dst in itertools.product(space, space):
                if only_src_steps is not None and src["steps"] != only_src_steps:
                    continue
                changed = [k for k in dst if dst[k] != src[k]]
                if not changed:
                    continue
                ref = build(dst, comp)
                for order in itertools.permutations(changed):
                    case = {"encoder": enc_kind, "constructed_with": src, "compensate": comp, "setters": [[k, dst[k]] for k in order]}
                    tally.add("evaluations")
                    try:
                        enc = build(src, comp)
                        for k in order:
                            setattr(enc, k, dst[k])
                    except Exception as ex:
                        tally.violation(f"exception:{enc_kind}:set-{k}:{type(ex).__name__}", case, f"{k}={dst[k]!r} raised {type(ex).__name__}: {ex}", None, repr(ex))
                        continue
                    want = {"steps": dst["steps"], "dt": dst["dt"], "frequency": dst["frequency"]}
                    if enc_kind == "exp":
                        want["refrac"] = dst["dt"] if dst["refrac"] is None else dst["refrac"]
                    if enc_kind == "exp" and comp:
                        # a REJECTED assignment (frequency * refrac >= 1000 while compensating) must leave the encoder as it was
                        for nm, badv in (("frequency", 5000.0), ("refrac", 50.0)):
                            try:
                                setattr(enc, nm, badv)
                                tally.violation(f"exp:reconfigured:invalid-{nm}-accepted", case, f"{nm}={badv} accepted although frequency*refrac >= 1000 with compensation on")
                            except ValueError:
                                pass
                            except Exception as ex:
                                tally.violation(f"exception:exp:set-{nm}:{type(ex).__name__}", case, repr(ex))
                    got = {k: getattr(enc, k) for k in want}
                    if got != want:
                        bad = [k for k in want if got[k] != want[k]]
                        tally.violation(f"{enc_kind}:reconfigured:getter:{bad[0]}", case, f"after the setters the encoder reports {got}, configured {want}", want, got)
                        continue
                    gap = 1 if enc_kind != "exp" else max(1, math.ceil(want["refrac"] / want["dt"]))
                    ok = True
                    for online in (False, True):
                        for seq in seqs:
                            outs = []
                            for e in (enc, ref):
                                env.seq, env.ptr = seq, 0
                                o = e(x.clone(), online=online)
                                outs.append(torch.stack([s.clone() for s in o]) if online else o)
                            c2 = {**case, "online": online, "answers": list(seq)}
                            if outs[0].shape != outs[1].shape or not torch.equal(outs[0], outs[1]):
                                tally.violation(f"{enc_kind}:reconfigured:train-differs:{order[-1]}", c2, "the train differs from that of an encoder constructed with the "
                                                "same configuration under the same draws", outs[1].int().tolist(), outs[0].int().tolist())
                                ok = False
                                break
                            check_train(tally, c2, outs[0], want["steps"], (3,), x.tolist(), gap, f"{enc_kind}:reconfigured")
                            if int(outs[0].sum()) >= 2:
                                tally.mark("nontrivial", ("reconf", enc_kind, comp, tuple(src.items()), order, online, seq))
                        if not ok:
                            break
    finally:
        env.remove()
    tally.sample({"part": "reconfiguration through setters", "encoder": enc_kind, "configurations": len(space), "answer_sequence_length": L})
    return tally


def run(rep):
    jobs = [(seeds_shard, (rep.tier,))]
    for comp in (False, True):
        for st in (4, 6):
            jobs.append((reconfig_shard, ("exp", rep.tier, comp, st)))
    for enc_kind in ("interval", "bern"):
        jobs.append((reconfig_shard, (enc_kind, rep.tier)))
    for enc_kind in ("exp", "interval", "bern"):
        for dt in (1.0, 0.5):
            for steps in (1, 4, 6):
                for freq in (100.0, 400.0, 2000.0):
                    jobs.append((shard, (enc_kind, dt, steps, freq, rep.tier)))
    tally = run_shards(jobs, seed=rep.seed)
    rep.tally.merge(tally)
    rep.assumptions += [
        "answer alphabets: exponential draws {1e-6,0.5,1,3}, poisson counts {0,1,2,5}, bernoulli {0,1}; all sequences of length 4 (quick) / "
        "6 (thorough), consumed cyclically in draw order; an exponential draw of exactly 0.0 is outside the alphabet",
        "refractory periods are multiples of dt; compensated configurations restricted to frequency*refrac < 1000 (the documented domain)",
        "reconfiguration: steps {4,6} x dt {1,.5} x refrac {None,1,2} x frequency {200,400} reached from every other such configuration by assigning "
        "only the differing attributes in every order; trains compared with a constructed encoder under every answer sequence of length 2 (3)",
        "'for all seeds' is claimed only through the answer enumeration at these sizes plus seeds 0..31 (quick) / 0..127 (thorough) of the real generator",
    ]
    cov = {
        "evaluations": tally.counts.get("evaluations", 0),
        "distinct_nontrivial": len(tally.sets.get("nontrivial", ())),
        "distinct_outcomes": len(tally.sets.get("outcomes", ())),
        "exhaustive": True,
        "rule": "every answer sequence over the alphabet x intensities {0,.5,1}^2 x steps {1,4,6} x dt {1,.5} x frequency {100,400,2000} x refrac "
                "{None,dt,2dt,3dt} x compensate x online/offline; non-trivial = distinct cases producing at least two spikes",
    }
    return rep.finish(cov, floors={"evaluations": 50000, "distinct_nontrivial": 1000})


def replay(case):
    out = {"violations": []}
    if "answers" in case:
        env = Env()
        env.install()
        try:
            env.seq, env.ptr = tuple(case["answers"]), 0
            if case["encoder"] == "exp":
                enc = HomogeneousPoissonEncoder(case["steps"], case["dt"], case["frequency"], refrac=case["refrac"], compensate=case["compensate"])
            elif case["encoder"] == "interval":
                enc = PoissonIntervalEncoder(case["steps"], case["dt"], case["frequency"])
            else:
                enc = HomogeneousPoissonApproxEncoder(case["steps"], case["dt"], case["frequency"])
            try:
                o = enc(torch.tensor(case["intensities"]), online=case["online"])
                o = torch.stack(list(o)) if case["online"] else o
                out["train"] = o.int().tolist()
            except Exception as ex:
                out["raised"] = repr(ex)
        finally:
            env.remove()
    return out
