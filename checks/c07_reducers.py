"""C07 - spike traces and fold reducers equal their closed forms over any event history (E2).

Every sequence (length <= bound) over {observe(letter), clear(keepshape=True), clear(keepshape=False),
dt := dt' (duration 0 only)} is run on the real reducer; after every sequence peek/latest/dump and
view(t) for every t on the quarter-step grid inside the recorded range are compared with closed forms
computed from the list of (real time, observation) events since the last clear. The nine trace_*
functions are folded over all boolean histories and compared with the same closed forms.
"""

from __future__ import annotations

import itertools
import math

import torch

import inferno
from inferno.observe import (NearestTraceReducer, CumulativeTraceReducer, ScaledNearestTraceReducer, ScaledCumulativeTraceReducer,
                             ConditionalNearestTraceReducer, ConditionalCumulativeTraceReducer, EventReducer, PassthroughReducer,
                             EMAReducer, CAReducer)

from mc.common import Tally, Guard
from mc.pool import run_shards

ID = "C07"
LEVEL = "model_checking"

KINDS = ("nearest", "cumulative", "nearest-tol", "cumulative-tol", "snearest", "scumulative", "cnearest", "ccumulative", "event-inf", "event-zero", "pass", "ema", "ca")
BOOL_LETTERS = [(0.0, 0.0), (0.0, 1.0), (1.0, 0.0), (1.0, 1.0)]
REAL_LETTERS = [(0.0, 0.5), (0.5, -1.0), (-1.0, 2.0), (2.0, 0.0)]
# target 0.75 with tolerance 0.25: 0.5 and 1.0 lie exactly on the tolerance boundary (they match), 0.25 and 0.0 do not
TOL_LETTERS = [(0.0, 0.5), (0.5, 1.0), (1.0, 0.25), (0.25, 0.0)]
TOL_TARGET, TOL = 0.75, 0.25
ALPHA = 0.25
SCALE = 0.5


def crit(x):
    return x > 0.25


def make(kind, dt, tau, amp, duration, inplace, inclusive=False):
    kw = dict(duration=duration, inclusive=inclusive, inplace=inplace)
    if kind == "nearest":
        return NearestTraceReducer(dt, tau, amp, 1.0, **kw)
    if kind == "cumulative":
        return CumulativeTraceReducer(dt, tau, amp, 1.0, **kw)
    if kind == "nearest-tol":
        return NearestTraceReducer(dt, tau, amp, TOL_TARGET, TOL, **kw)
    if kind == "cumulative-tol":
        return CumulativeTraceReducer(dt, tau, amp, TOL_TARGET, TOL, **kw)
    if kind == "snearest":
        return ScaledNearestTraceReducer(dt, tau, amp, SCALE, crit, **kw)
    if kind == "scumulative":
        return ScaledCumulativeTraceReducer(dt, tau, amp, SCALE, crit, **kw)
    if kind == "cnearest":
        return ConditionalNearestTraceReducer(dt, tau, amp, SCALE, **kw)
    if kind == "ccumulative":
        return ConditionalCumulativeTraceReducer(dt, tau, amp, SCALE, **kw)
    if kind == "event-inf":
        return EventReducer(dt, crit, "inf", **kw)
    if kind == "event-zero":
        return EventReducer(dt, crit, "zero", **kw)
    if kind == "pass":
        return PassthroughReducer(dt, **kw)
    if kind == "ema":
        return EMAReducer(dt, ALPHA, **kw)
    if kind == "ca":
        return CAReducer(dt, **kw)
    raise ValueError(kind)


def letters_for(kind):
    if kind.endswith("-tol"):
        return TOL_LETTERS
    return BOOL_LETTERS if kind in ("nearest", "cumulative") else REAL_LETTERS


def closed_form(kind, events, tau, amp, e):
    """events: list of (time_of_observation, value tuple, cond tuple) since the last clear (real time); returns the
    series of reducer values after each observation, for element e, plus the interpolation rule"""
    out = []
    for i, (t, obs, cond) in enumerate(events):
        x = obs[e]
        if kind in ("nearest", "cumulative", "nearest-tol", "cumulative-tol", "snearest", "scumulative", "cnearest", "ccumulative"):
            def match(j):
                o, c = events[j][1][e], events[j][2][e]
                if kind in ("nearest", "cumulative"):
                    return o == 1.0
                if kind.endswith("-tol"):
                    return abs(o - TOL_TARGET) <= TOL
                if kind in ("snearest", "scumulative"):
                    return o > 0.25
                return bool(c)

            def contrib(j):
                if kind in ("nearest", "cumulative", "nearest-tol", "cumulative-tol"):
                    return amp
                return SCALE * events[j][1][e] + amp

            js = [j for j in range(i + 1) if match(j)]
            if kind in ("nearest", "nearest-tol", "snearest", "cnearest"):
                v = contrib(js[-1]) * math.exp(-(t - events[js[-1]][0]) / tau) if js else 0.0
            else:
                v = sum(contrib(j) * math.exp(-(t - events[j][0]) / tau) for j in js)
        elif kind.startswith("event"):
            js = [j for j in range(i + 1) if events[j][1][e] > 0.25]
            if js:
                v = t - events[js[-1]][0]
            else:
                v = math.inf if kind == "event-inf" else (t - events[0][0])
        elif kind == "pass":
            v = x
        elif kind == "ema":
            v = x if i == 0 else ALPHA * x + (1 - ALPHA) * out[-1]
        elif kind == "ca":
            v = sum(ev[1][e] for ev in events[: i + 1]) / (i + 1)
        out.append(v)
    return out


def interp_rule(kind, older, newer, elapsed, dt, tau):
    if kind in ("nearest", "cumulative", "nearest-tol", "cumulative-tol", "snearest", "scumulative", "cnearest", "ccumulative"):
        return older * math.exp(-elapsed / tau)
    if kind.startswith("event"):
        return older + elapsed
    if kind == "pass":
        return older
    return older + (newer - older) * (elapsed / dt)


def same(a, b):
    if isinstance(b, float) and math.isinf(b):
        return a == b
    if b != b:
        return a != a
    return abs(a - b) <= 1e-5 * max(1.0, abs(b))


def run_sequence(kind, dt0, tau, amp, duration, inplace, seq, inclusive=False):
    """returns (reducer, events since clear, dt now)"""
    r = make(kind, dt0, tau, amp, duration, inplace, inclusive)
    L = letters_for(kind)
    events = []
    now = 0.0
    dt = dt0
    mutated = []
    object.__setattr__(r, "_verif_mutated", mutated)
    for op in seq:
        if op[0] == "obs":
            obs = L[op[1]]
            cond = BOOL_LETTERS[(op[1] + 1) % 4]
            now += dt
            events.append((now, obs, cond))
            args = (torch.tensor(obs), torch.tensor(cond).bool()) if kind in ("cnearest", "ccumulative") else (torch.tensor(obs),)
            g = Guard(*args)
            r(*args)
            # the observation comes back untouched and the record keeps a copy, not an alias (it is overwritten before any view)
            if not g.release():
                mutated.append(len(events))
        elif op[0] == "clear":
            r.clear(keepshape=op[1])
            events = []
        elif op[0] == "dt":
            r.dt = op[1]
            dt = op[1]
    return r, events, dt


def check_node(tally, cfg, kind, dt0, tau, amp, duration, inplace, seq, inclusive=False):
    case = {**cfg, "sequence": [list(o) for o in seq]}
    try:
        r, events, dt = run_sequence(kind, dt0, tau, amp, duration, inplace, seq, inclusive)
    except Exception as ex:
        tally.violation(f"exception:{kind}:{seq[-1][0]}:{type(ex).__name__}", case, f"{type(ex).__name__}: {ex}", None, repr(ex))
        return False
    ok = True
    if getattr(r, "_verif_mutated", None):
        tally.violation(f"input-mutated:{kind}", case, "the reducer modified the caller's observation tensor in place")
        ok = False
    pk = r.peek()
    lt = r.latest
    if not events:
        if pk is not None or lt is not None or r.dump() is not None:
            tally.violation(f"cleared-not-initial:{kind}", case, f"after clear / before the first observation peek={pk} dump={r.dump()}")
            ok = False
        return ok
    series = [closed_form(kind, events, tau, amp, e) for e in range(2)]
    n = len(events)
    if pk is None or tuple(pk.shape) != (2,):
        tally.violation(f"peek-shape:{kind}", case, f"peek returned {pk}")
        return False
    for e in range(2):
        if not same(float(pk[e]), series[e][-1]):
            tally.violation(f"peek:{kind}", case, f"peek[{e}]={float(pk[e])}, closed form {series[e][-1]}", series[e][-1], float(pk[e]))
            ok = False
        if not same(float(lt[e]), series[e][-1]):
            tally.violation(f"latest:{kind}", case, f"latest[{e}]={float(lt[e])}, closed form {series[e][-1]}", series[e][-1], float(lt[e]))
            ok = False
    # dump: newest first
    N = max(math.ceil(duration / dt) + (1 if inclusive else 0), 1)
    dp = r.dump()
    if dp is None or dp.shape[0] != N:
        tally.violation(f"dump-shape:{kind}", case, f"dump {None if dp is None else tuple(dp.shape)}, record size {N}")
        ok = False
    else:
        for k in range(min(n, N)):
            for e in range(2):
                if not same(float(dp[k, e]), series[e][n - 1 - k]):
                    tally.violation(f"dump-order:{kind}", case, f"dump[{k}][{e}]={float(dp[k, e])}, expected the value {k} step(s) ago {series[e][n - 1 - k]}", None, None)
                    ok = False
    # view on the quarter-step grid within the recorded range
    if N > 1:
        depth = min(n, N) - 1  # steps back that were recorded since the clear
        grid = [q * dt / 4 for q in range(0, 4 * depth + 1)]
        res = {}
        for t in grid:
            tally.add("views")
            try:
                v = r.view(t)
            except Exception as ex:
                tally.violation(f"exception:view:{kind}:{type(ex).__name__}", {**case, "time": t}, repr(ex))
                ok = False
                continue
            s = t / dt
            for e in range(2):
                if abs(s - round(s)) < 1e-9:
                    exp = series[e][n - 1 - int(round(s))]
                else:
                    c, f_ = math.ceil(s), math.floor(s)
                    exp = interp_rule(kind, series[e][n - 1 - c], series[e][n - 1 - f_], dt * (c - s), dt, tau)
                if not same(float(v[e]), exp):
                    tally.violation(f"view:{kind}:{'on-grid' if abs(s - round(s)) < 1e-9 else 'between'}", {**case, "time": t},
                                    f"view({t})[{e}]={float(v[e])}, closed form {exp}", exp, float(v[e]))
                    ok = False
            res[t] = v
        # per-element tensor times agree with scalar views
        if len(grid) >= 2 and all(t in res for t in grid):
            for i, ta in enumerate(grid):
                tb = grid[(i * 3 + 1) % len(grid)]
                tally.add("views")
                tv = r.view(torch.tensor([ta, tb]))
                if not (same(float(tv[0]), float(res[ta][0])) and same(float(tv[1]), float(res[tb][1]))):
                    tally.violation(f"view:tensor!=scalar:{kind}", {**case, "time": [ta, tb]}, f"{tv.tolist()} vs scalar views {[float(res[ta][0]), float(res[tb][1])]}")
                    ok = False
    # ---- differential: after a clear every observable - including the slots older than the first observation since the
    # clear - equals that of a fresh reducer fed the suffix
    clears = [i for i, o in enumerate(seq) if o[0] == "clear"]
    if ok and clears:
        last = clears[-1]
        suffix = tuple(o for o in seq[:last] if o[0] == "dt") + tuple(seq[last + 1:])
        try:
            fr, _, _ = run_sequence(kind, dt0, tau, amp, duration, inplace, suffix, inclusive)
            d1, d2 = r.dump(), fr.dump()
            same_dump = (d1 is None and d2 is None) or (d1 is not None and d2 is not None and d1.shape == d2.shape and torch.allclose(d1, d2, equal_nan=True))
            if not same_dump:
                tally.violation(f"clear-not-fresh:dump:{kind}:keepshape={seq[last][1]}", case, f"after clear(keepshape={seq[last][1]}) and the same suffix, dump() = "
                                f"{None if d1 is None else d1.tolist()} but a fresh reducer gives {None if d2 is None else d2.tolist()}")
                ok = False
            elif N > 1:
                for q in range(0, 4 * (N - 1) + 1):
                    t = q * dt / 4
                    tally.add("views")
                    v1, v2 = r.view(t), fr.view(t)
                    if not ((v1 is None and v2 is None) or torch.allclose(v1, v2, equal_nan=True)):
                        tally.violation(f"clear-not-fresh:view:{kind}:keepshape={seq[last][1]}", {**case, "time": t}, f"after clear, view({t}) = {v1.tolist()} but a fresh "
                                        f"reducer fed the same suffix gives {v2.tolist()}")
                        ok = False
                        break
        except Exception as ex:
            tally.violation(f"exception:clear-differential:{kind}:{type(ex).__name__}", case, repr(ex))
            ok = False
    return ok


def shard(kind, dt0, tau, amp, durk, inplace, depth, inclusive=False):
    tally = Tally()
    duration = durk * dt0
    cfg = {"reducer": kind, "dt": dt0, "tau": tau, "amplitude": amp, "duration": duration, "inplace": inplace, "inclusive": inclusive}
    ops = [("obs", i) for i in range(4)] + [("clear", True), ("clear", False)]
    if durk == 0:
        ops.append(("dt", 0.5 if dt0 == 1.0 else 1.0))
    frontier = [()]
    for d in range(1, depth + 1):
        nxt = []
        for h in frontier:
            for op in ops:
                # two clears in a row or a clear first add nothing new below depth; keep them anyway up to depth 2
                seq = h + (op,)
                tally.add("steps")
                if check_node(tally, cfg, kind, dt0, tau, amp, duration, inplace, seq, inclusive):
                    nxt.append(seq)
                nobs = sum(1 for o in seq if o[0] == "obs")
                if nobs >= 2:
                    tally.mark("nontrivial", (kind, dt0, tau, amp, durk, inplace, seq))
        frontier = nxt
    # differential: after a clear every observable equals that of a fresh reducer fed the suffix (covered by the closed forms
    # being computed from events since the clear only)
    if durk == 2 and not inplace and dt0 == 1.0:
        tally.sample({**cfg, "alphabet": [list(o) for o in ops], "depth": depth})
    return tally


def functional_shard(T):
    """the trace_* functions folded over all boolean histories"""
    tally = Tally()
    tau, dt, amp = 2.0, 0.5, 1.5
    decay = math.exp(-dt / tau)
    fns = {
        "trace_nearest": lambda o, s: inferno.trace_nearest(o, s, decay=decay, amplitude=amp, target=1.0),
        "trace_cumulative": lambda o, s: inferno.trace_cumulative(o, s, decay=decay, amplitude=amp, target=1.0),
        "exp_trace_nearest": lambda o, s: inferno.exp_trace_nearest(o, s, step_time=dt, time_constant=tau, amplitude=amp, target=1.0),
        "exp_trace_cumulative": lambda o, s: inferno.exp_trace_cumulative(o, s, step_time=dt, time_constant=tau, amplitude=amp, target=1.0),
        "exprate_trace_nearest": lambda o, s: inferno.exprate_trace_nearest(o, s, step_time=dt, rate_constant=1 / tau, amplitude=amp, target=1.0),
        "exprate_trace_cumulative": lambda o, s: inferno.exprate_trace_cumulative(o, s, step_time=dt, rate_constant=1 / tau, amplitude=amp, target=1.0),
        "trace_nearest_scaled": lambda o, s: inferno.trace_nearest_scaled(o, s, decay=decay, amplitude=amp, scale=SCALE, matchfn=lambda x: x > 0.25),
        "trace_cumulative_scaled": lambda o, s: inferno.trace_cumulative_scaled(o, s, decay=decay, amplitude=amp, scale=SCALE, matchfn=lambda x: x > 0.25),
        "trace_cumulative_value": lambda o, s: inferno.trace_cumulative_value(o, s, decay=decay, scale=SCALE),
        "trace_nearest_tol": lambda o, s: inferno.trace_nearest(o, s, decay=decay, amplitude=amp, target=0.75, tolerance=0.25),
        "trace_cumulative_tol": lambda o, s: inferno.trace_cumulative(o, s, decay=decay, amplitude=amp, target=0.75, tolerance=0.25),
        # the matching value is whatever the target says, zero included: an all-zero observation is then an event everywhere
        # (these two are fed the same value in both elements, so whole observations are all-zero or all-one)
        "trace_nearest_t0": lambda o, s: inferno.trace_nearest(o, s, decay=decay, amplitude=amp, target=0.0),
        "trace_cumulative_t0": lambda o, s: inferno.trace_cumulative(o, s, decay=decay, amplitude=amp, target=0.0),
        "trace_cumulative_t0_tol": lambda o, s: inferno.trace_cumulative(o, s, decay=decay, amplitude=amp, target=0.125, tolerance=0.25),
    }
    for name, f, odt in [(n, f_, torch.float32) for n, f_ in fns.items()] + \
                        [(n, fns[n], d) for n in ("trace_nearest", "trace_cumulative", "exp_trace_nearest", "exp_trace_cumulative",
                                                  "exprate_trace_nearest", "exprate_trace_cumulative") for d in (torch.bool, torch.int64)]:
        # spike observations may be boolean or integer tensors: same traces (amplitude 1.5 does not survive a cast to either)
        for hist in itertools.product((0.0, 1.0), repeat=T if odt == torch.float32 else min(T, 5)):
            state = None
            for i, x in enumerate(hist):
                t0 = "_t0" in name
                state = f(torch.tensor([x, x if t0 else 1.0 - x]).to(odt), state)
                tally.add("steps")
                for e in range(2):
                    h = [v if (e == 0 or t0) else 1.0 - v for v in hist[: i + 1]]
                    js = [j for j in range(i + 1) if h[j] == (0.0 if t0 else 1.0)]
                    if name.endswith("value"):
                        exp = sum(SCALE * h[j] * decay ** (i - j) for j in range(i + 1))
                    elif "scaled" in name:
                        c = SCALE * 1.0 + amp
                        exp = (c * decay ** (i - js[-1]) if js else 0.0) if "nearest" in name else sum(c * decay ** (i - j) for j in js)
                    elif "nearest" in name:
                        exp = amp * decay ** (i - js[-1]) if js else 0.0
                    else:
                        exp = sum(amp * decay ** (i - j) for j in js)
                    if not same(float(state[e]), exp):
                        tally.violation(f"functional:{name}" + ("" if odt == torch.float32 else f":{str(odt).replace('torch.', '')}-observations"),
                                        {"function": name, "history": list(hist[: i + 1]), "element": e, "observation_dtype": str(odt)}, f"{float(state[e])} vs closed form {exp}", exp, float(state[e]))
            if sum(hist) >= 2:
                tally.mark("nontrivial", (name, str(odt), hist))
    tally.sample({"part": "trace functions", "T": T, "functions": list(fns)})
    return tally


def run(rep):
    quick = rep.tier == "quick"
    depth = 4 if quick else 5
    jobs = [(functional_shard, (6 if quick else 9,))]
    for kind in KINDS:
        for dt0 in (1.0, 0.5):
            for tau, amp in ((2.0, 1.0), (20.0, -0.5)):
                if kind in ("event-inf", "event-zero", "pass", "ema", "ca", "nearest-tol", "cumulative-tol") and tau != 2.0:
                    continue
                for durk in (0, 2, 2.5):
                    for inplace in (False, True):
                        if quick and inplace and durk == 2.5:
                            continue
                        jobs.append((shard, (kind, dt0, tau, amp, durk, inplace, depth)))
                        if durk == 2 and not inplace and dt0 == 1.0:
                            # inclusive records (what the trainers use): one more slot, views up to the full duration
                            jobs.append((shard, (kind, dt0, tau, amp, durk, inplace, depth - 1, True)))
    tally = run_shards(jobs, seed=rep.seed)
    rep.tally.merge(tally)
    c = tally.counts
    rep.assumptions += [
        "observations: boolean pairs for spike traces, 4 real pairs for scaled/real reducers; time constants {2,20}, amplitudes {1,-0.5}; "
        "durations {0,2dt,2.5dt}; float comparison 1e-5 relative",
        "views are checked for times on the quarter-step grid within the range recorded since the last clear; dt changes are explored "
        "for duration 0 only (resizing is C13/C14)",
    ]
    cov = {
        "states": c.get("steps", 0),
        "transitions": c.get("steps", 0),
        "traces_validated_against_impl": c.get("steps", 0),
        "views_checked": c.get("views", 0),
        "sequence_depth": depth,
        "configurations": len(jobs) - 1,
        "exhaustive": True,
        "evaluations": c.get("steps", 0) + c.get("views", 0),
        "distinct_nontrivial": len(tally.sets.get("nontrivial", ())),
        "rule": "every event sequence up to the depth bound per (reducer, dt, tau/amplitude, duration, inplace) configuration, each replayed on a "
                "fresh real reducer (states = sequences); non-trivial = distinct sequences with at least two observations",
    }
    return rep.finish(cov, floors={"transitions": 50000, "views_checked": 20000})


def replay(case):
    if "sequence" not in case:
        return {"violations": [], "note": "functional case; see record"}
    seq = [tuple(o) for o in case["sequence"]]
    r, events, dt = run_sequence(case["reducer"], case["dt"], case["tau"], case["amplitude"], case["duration"], case["inplace"], seq, case.get("inclusive", False))
    out = {"violations": [], "peek": None if r.peek() is None else r.peek().tolist(), "dump": None if r.dump() is None else r.dump().tolist()}
    if "time" in case and not isinstance(case["time"], list):
        out["view"] = r.view(case["time"]).tolist()
    return out
