#!/venv/bin/python
"""Run the repository's pinned suite (guard OFF) and compare with /root/.vp/BASELINE.json stable_pass.
usage: baseline.py [repo_dir]   exit 0 iff every stable-pass test passed."""
import json, os, subprocess, sys, tempfile
import xml.etree.ElementTree as ET

repo = sys.argv[1] if len(sys.argv) > 1 else "/repo"
base = json.load(open("/root/.vp/BASELINE.json"))
stable = set(base["stable_pass"])
fd, xml = tempfile.mkstemp(suffix=".xml"); os.close(fd)
env = dict(os.environ); env.pop("INFERNO_VERIF", None)
env["PYTHONPATH"] = repo
cmd = ["/venv/bin/python", "-m", "pytest", "-ra", "-q", "-p", "no:cacheprovider", "--timeout=900",
       "--continue-on-collection-errors", f"--junitxml={xml}"]
p = subprocess.run(cmd, cwd=repo, env=env, capture_output=True, text=True)
passed = set()
for tc in ET.parse(xml).getroot().iter("testcase"):
    ok = not any(c.tag in ("failure", "error", "skipped") for c in tc)
    if ok:
        passed.add(f"{tc.get('classname')}::{tc.get('name')}")
os.unlink(xml)
missing = sorted(stable - passed)
# the suite draws unseeded random inputs: re-run a non-passing stable test up to 3 times and
# only count it if it fails every time
still = []
for m in missing:
    cls, name = m.split("::", 1)
    parts = cls.split(".")
    # classname is module path + class
    for cut in range(len(parts), 0, -1):
        f = os.path.join(repo, *parts[:cut]) + ".py"
        if os.path.exists(f):
            nodeid = "/".join(parts[:cut]) + ".py::" + "::".join(parts[cut:] + [name])
            break
    else:
        still.append(m); continue
    ok = False
    for _ in range(3):
        r = subprocess.run(["/venv/bin/python", "-m", "pytest", "-q", "-p", "no:cacheprovider", nodeid], cwd=repo, env=env, capture_output=True, text=True)
        if r.returncode == 0:
            ok = True; break
    if ok:
        print("  flaky (passed on re-run):", m)
    else:
        still.append(m)
missing = still
print(p.stdout.strip().splitlines()[-1] if p.stdout.strip() else p.stderr[-500:])
print(f"stable_pass={len(stable)} passed_now={len(passed)} stable_not_passing={len(missing)}")
for m in missing[:40]:
    print("  NOT PASSING:", m)
sys.exit(1 if missing else 0)
