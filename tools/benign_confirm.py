#!/usr/bin/env python3
"""usage: benign_confirm.py <PID> <patch.diff> [name]
Applies a behaviour-preserving refactor of /repo to a scratch worktree and runs the property's quick check against it
(VERIF_REPO): the check must stay silent (exit 0). Keeps the patch and the outcome under /verif/benign/<PID>-<name>/."""
import json, os, shutil, subprocess, sys, time
VERIF = "/verif"
PY = "/venv/bin/python"

def sh(cmd, **kw):
    p = subprocess.run(cmd, stdout=subprocess.PIPE, stderr=subprocess.STDOUT, text=True, **kw)
    return p.returncode, p.stdout

def main():
    pid, patch = sys.argv[1], os.path.abspath(sys.argv[2])
    name = sys.argv[3] if len(sys.argv) > 3 else "r1"
    dst = os.path.join(VERIF, "benign", f"{pid}-{name}")
    os.makedirs(dst, exist_ok=True)
    if os.path.abspath(os.path.dirname(patch)) != dst:
        shutil.copy(patch, os.path.join(dst, "patch.diff"))
        n = os.path.join(os.path.dirname(patch), "notes.md")
        if os.path.exists(n):
            shutil.copy(n, os.path.join(dst, "notes.md"))
    wt = f"/tmp/benignwt_{pid}_{name}_{os.getpid()}"
    sh(["git", "-C", "/repo", "worktree", "add", "--detach", wt])
    meta = {"property": pid, "name": name, "kind": "behaviour-preserving refactor (independent sub-agent); the check must stay silent"}
    try:
        rca, outa = sh(["git", "-C", wt, "apply", os.path.join(dst, "patch.diff")])
        meta["patch_applies"] = rca == 0
        evf = os.path.join(VERIF, "evidence", f"{pid}.json")
        keep = open(evf).read() if os.path.exists(evf) else None
        t0 = time.time()
        rc, out = sh([PY, os.path.join(VERIF, "run_check.py"), pid, "--tier", "quick"], cwd=VERIF, env=dict(os.environ, VERIF_REPO=wt))
        if keep is not None:
            open(evf, "w").write(keep)
        vl = [l for l in out.splitlines() if l.startswith("VIOLATION") or l.strip().startswith("key=")]
        meta["check"] = {"exit": rc, "silent": rc == 0 and not vl, "wall_s": round(time.time() - t0, 1), "lines": vl[:10],
                         "repo_head": sh(["git", "-C", "/repo", "rev-parse", "--short", "HEAD"])[1].strip()}
        print(f"benign {pid}-{name}: applies={rca == 0} exit={rc} silent={meta['check']['silent']}")
        for l in vl[:10]:
            print("   ", l[:300])
        if rc not in (0, 1):
            print(out[-1500:])
    finally:
        sh(["git", "-C", "/repo", "worktree", "remove", "--force", wt])
        shutil.rmtree(wt, ignore_errors=True)
    json.dump(meta, open(os.path.join(dst, "meta.json"), "w"), indent=1)

if __name__ == "__main__":
    main()
