#!/bin/bash
# re-runs every kept seeded change against its property's quick check (scratch worktree, VERIF_REPO) and prints one line each
# usage: tools/run_seeded.sh [name-prefix]
cd "$(dirname "$0")/.."
for d in seeded/${1:-C}*/; do
  n=$(basename $d); pid=${n%%-*}; nm=${n#*-}
  [ -f "$d/meta.json" ] || continue
  out=$(python3 tools/seed_confirm.py $pid $nm $d 2>&1 | grep -E "^check $pid " | head -1)
  echo "$n :: $out"
done
python3 tools/seeded_results.py > /dev/null
