#!/usr/bin/env python3
"""Regenerates /verif/MANIFEST.json from the table below and validates it against the schema."""
import glob
import json
import os
import subprocess
import sys

HERE = os.path.dirname(os.path.dirname(os.path.abspath(__file__)))
PY = "/venv/bin/python"

# id -> (level category, design_ref, technique, level text, level note)
CHECKS = {
    "C01": (
        "model_checking", "DESIGN.md §3 C01",
        "explicit-state BFS to fixpoint over (pointer x rank pattern) of the real RecordTensor against a list model",
        "Every reachable canonical ring state for N<=3 (quick) / N<=5 (thorough) is visited and every operation of the "
        "alphabet (all offsets in [0,2N], lengths in [1,N], forward/backward, scalar/uniform/heterogeneous tensor "
        "offsets, in-place and out-of-place) is executed from it on the real code and compared with a list model "
        "(return value, pointer, full storage). Inductive over histories inside the size bound.",
        "torch indexing primitives trusted; sizes beyond N=5 and observation shapes beyond (2,2) not explored; canonical "
        "merge relies on the code never branching on stored values",
    ),
    "C02": (
        "exploration", "DESIGN.md §3 C02",
        "exhaustive finite-domain sweep (dt x N x pointer x offset x tolerance x quarter-step time grid x interp/extrap) "
        "against a rational reference; scalar==tensor and insert->select round-trip differential oracles",
        "Every combination of step time {1,0.5}, record size 1..4(5), pointer position, offset {0,1,2}, tolerance "
        "{0,1e-6,dt/4}, every time on the quarter-step grid incl. both range limits and the tolerance band, all six "
        "interpolations and eight extrapolations, scalar / per-element tensor / trailing-D times, in-place or not, is "
        "executed on a ring state reached by real pushes and compared with an exact-rational reference.",
        "times between grid points and non-representable step times at zero tolerance are outside the alphabet; torch "
        "gather/scatter trusted",
    ),
    "C13": (
        "model_checking", "DESIGN.md §3 C13",
        "explicit-state BFS over temporal-setter/push sequences and reconstrain sequences from every (pointer, fill) "
        "start state, list model + independently recomputed constraint validity",
        "All sequences (depth 3 quick / 4 thorough after the start state) of dt=/duration=/inclusive=/push from every "
        "pointer position and fill level and every uninitialised storage kind, and all reconstrain add/edit/remove "
        "sequences (depth 4/5) on strict and non-strict shaped and record tensors, are executed on the real objects; size "
        "formula, preserved newest observations, zero fill, refusal without side effects and validity are compared "
        "with the model after every transition.",
        "record sizes 1..11 reached through dt in {1,0.5,0.3} and durations {0,0.9,1,2,3,4}; dims {0,1,-1,-2}; the "
        "shipped strict-compatibility rule is taken as the definition of 'compatible' for strict constraints",
    ),
    "C10": (
        "model_checking", "DESIGN.md §3 C10",
        "explicit-state BFS over contribute/update/clear/updatesome/del event sequences against a two-list model, plus an "
        "exhaustive grid of the inductive stay-in-range step",
        "All event sequences up to depth 4 (quick) / 5 (thorough) from two trainers on two parameters are executed on the real "
        "Updater/Accumulator for every reduction (default, constructor, method) and bounding configuration (half/full x "
        "multiplicative, scaled, power, scaled power, sharp) and compared exactly (dyadic values) with the list model after "
        "every event, including accumulator cache coherence and isolation of the sibling parameter. Stay-in-range is an "
        "inductive step on a 65x9x9 grid per dependence kind and order.",
        "values between grid points not covered; unscaled power dependence excluded from the range clause as in the property; "
        "float rounding tolerated at 1e-6*range",
    ),
    "C16": (
        "model_checking", "DESIGN.md §3 C16",
        "explicit-state BFS to fixpoint of the hook firing FSM (registered x trainexec x evalexec x mode x alive) on real Hook / "
        "ContextualHook / StateHook / Clamping objects, plus full grids for clamp/normalise post-conditions",
        "Every event (register, double register, deregister, train/eval, module call, manual call with force/ignore_mode, flag "
        "setters, delete-and-collect) is executed from every reachable FSM state for 10 hook kinds x 4 initial flag combinations; "
        "probe call deltas, pre/post order and live handle counts are compared with the FSM. Post-conditions are checked on all 625 "
        "(2,2) tensors over a 5-value alphabet x bounds x orders x scales x dims.",
        "torch hook dispatch trusted; one hook per module (interference between two hooks is explored in the thorough tier only "
        "if present); tensors outside the value alphabet not covered",
    ),
    "C20": (
        "exploration", "DESIGN.md §3 C20",
        "complete enumeration of small finite domains (all rasters T<=6, all <=3-spike train pairs/triples, dyadic "
        "interp/extrap grids) with brute-force references; parameter grids for the distributions",
        "Inverse law for all 11 extrap/interp pairs on a dyadic grid, interp_linear bracket law, isi re-integration for all 2-train "
        "rasters of length <=6 in both layouts, Victor-Purpura symmetry/triangle/identity/limits/value (brute-force matching "
        "reference) for all pairs and triples over 26 trains x 5 costs, and density/CDF/moment/round-trip identities of "
        "Poisson, Normal, LogNormal on parameter grids.",
        "the distribution part is a grid, not a domain proof; degenerate linear-extrapolation ends excluded; float tolerances 1e-5..1e-3",
    ),
    "C03": (
        "model_checking", "DESIGN.md §3 C03",
        "exhaustive input-history trie (all histories of length <= T over a 5-letter adversarial alphabet) on the real neuron "
        "classes, with a history monitor and the documented one-step equation as oracles",
        "For all eight neuron classes x 2 hyper-parameter sets x dt {1,0.5} x refrac_t {0,.5,1,1.5,2,3}dt x refrac_lock x adaptation "
        "on/off, every input history of length 4 (quick) / 6 (thorough) over {0, just-below-threshold, just-above-threshold, 1e6, "
        "strongly negative} is stepped on the real neuron; each step is checked against a history monitor (silent window, locked "
        "voltage, refrac>=0, spike attribute == output) and against the documented update/threshold/reset equation in float64; the "
        ">= comparator is checked on exactly representable states.",
        "float32 rounding tolerated at 1e-4 of the largest summed term; inputs outside the alphabet and T beyond the bound not covered; "
        "batch size 1 (batch independence is C11)",
    ),
    "C04": (
        "model_checking", "DESIGN.md §3 C04",
        "exhaustive spike-history trie on the real synapse classes (in-place and out-of-place in lockstep) against closed-form "
        "impulse-response sums and a history-indexed reference for every delayed read on a selector grid",
        "For the four synapse classes x dt {1,0.5} x max delay {0,1,2,2.5}dt x interpolation mode x tolerance {0,dt/4} x overbound "
        "{value,None,default} x batch {1,2}, every boolean history (2 elements) of length <=3 (quick) / <=5 (thorough) is replayed on "
        "fresh synapses; forward value, .current, .spike and current_at/spike_at for every selector of the half-step grid (incl. "
        "beyond-range and tolerance-band probes; trailing-D, heterogeneous) are compared with values computed from the history alone.",
        "selectors between half-steps not covered; delta-plus injected currents follow a fixed cycle; float tolerance 1e-5",
    ),
    "C05": (
        "exploration", "DESIGN.md §3 C05",
        "exhaustive finite sweeps: all boolean inputs x shape/batch/bias grid for dense/direct/lateral vs nested loops; full Conv2D "
        "geometry product vs a naive loop cross-correlation and F.conv2d; all lateral assignment/update sequences to a depth bound",
        "Outputs are compared bitwise (integer weights and currents) with the documented linear map computed by plain Python loops for "
        "every boolean input of in-size <=4 and every (in,out) shape pair from {(1),(2),(3),(2,2)}; Conv2D over the complete "
        "H,W,C,F,kernel,stride,padding,dilation product with non-empty output incl. the advertised output shape; lateral diagonal "
        "invariant and self-independence after every assignment/updater sequence; helper round trips and receptive-view "
        "reconstruction of forward.",
        "geometry grid bounded (H,W<=4 quick, <=5 thorough); torch F.unfold/F.fold trusted as primitives",
    ),
    "C19": (
        "exploration", "DESIGN.md §3 C19",
        "environment-answer enumeration: the three sampling primitives are replaced by an oracle and every answer sequence over a "
        "small alphabet is tried for every configuration; plus a real-generator pass over seeds for reproducibility",
        "Shape/dtype, exactly `steps` slices, silence at zero intensity and the minimum refractory gap are checked for every answer "
        "sequence of length 4 (quick) / 6 (thorough) over adversarial alphabets (incl. 'as short as possible'), for all three encoders, "
        "online and offline, intensities {0,.5,1}^2, steps {1,4,6}, dt {1,.5}, frequency {100,400,2000}, refrac {None,dt,2dt,3dt}, "
        "compensation on/off; seeds 0..31 of the real generator are run twice each.",
        "over-approximation of the generator only at the explored sizes; exponential draw exactly 0.0 excluded; compensated "
        "configurations limited to the documented domain frequency*refrac<1000",
    ),
    "C07": (
        "model_checking", "DESIGN.md §3 C07",
        "exhaustive event-sequence enumeration (observe / clear(keepshape) / dt change) on the real reducers against closed forms over the "
        "events since the last clear; all boolean histories for the nine trace functions",
        "For the ten shipped fold reducers (+ both EventReducer initial values) x dt {1,.5} x (tau,amplitude) x duration {0,2dt,2.5dt} x "
        "inplace, every event sequence of length <=4 (quick) / <=5 (thorough) is replayed on a fresh reducer; peek/latest, dump order and "
        "view(t) for every quarter-step time in the recorded range (scalar and per-element tensor) are compared with the closed-form "
        "sums / elapsed times / running means computed from the event list.",
        "float tolerance 1e-5; views beyond the range recorded since the last clear are not constrained; dt changes only at duration 0",
    ),
    "C06": (
        "model_checking", "DESIGN.md §3 C06",
        "exhaustive enumeration of per-synapse delay assignments x clear positions x all boolean input histories (as batch), differential "
        "against an identically parameterised undelayed connection whose synapse history is shifted per synapse",
        "For dense/direct/lateral/conv x delta/delta-plus/single-exp/double-exp x dt {1,1.3} x max delay {dt,2dt}: every delay assignment over "
        "{0..max} steps (half-steps too in the fractional shards), every position of clear(), every boolean history of length 3 (quick) / 5 "
        "(thorough); the delayed output, syncurrent and synspike must equal the undelayed synapse's history shifted by each synapse's delay "
        "(interpolated by the synapse's rule off-grid, rest before the start / last clear), and all-zero delays must equal the connection "
        "without delays bitwise.",
        "tiny connections (2->2, 2, conv 1x3 kernel (1,2)); histories ride the batch dimension; float tolerance 1e-5",
    ),
    "C17": (
        "model_checking", "DESIGN.md §3 C17",
        "exhaustive boolean input histories (as batch) through every layer topology, differential against a manual composition of "
        "identically parameterised components; clear() at every position followed by a replay against a fresh layer",
        "Serial (2 synapses x delays x transform x 2 neurons), Biclique (6 combine modes x transforms, two connections into two neuron "
        "groups) and RecurrentSerial (trainable feedback x transforms) are stepped on all 4^T boolean histories (T=4 quick, 6 thorough) and "
        "compared bitwise, output shapes included, with neuron(transform(connection(x))) style manual compositions; clear() at every "
        "position must succeed, keep parameters/adaptations and make a replay indistinguishable from a fresh layer.",
        "in-size 2 components; histories ride the batch dimension (relies on nothing that C11 does not check separately)",
    ),
    "C11": (
        "exploration", "DESIGN.md §3 C11",
        "self-composition: all tuples of per-sample input histories run batched and compared per sample with batch-size-1 runs of "
        "identically parameterised copies (2-safety checked by exhaustive enumeration of the history tuples)",
        "For 8 neuron classes (adaptation frozen), 4 synapses (delay 0 and 2dt), 4 connections x 2 synapses x delayed/undelayed, and "
        "Serial/Biclique/RecurrentSerial layers, every pair of histories (27 or 81 histories over a 3-letter alphabet) for B=2 and every "
        "pair plus a permuted third sample for B=3 is run; every output, state variable, delayed view and logical record content of "
        "sample b must equal the single-sample run at every step. Adaptations are checked to equal the configured batch reduction "
        "(mean/amax/sum) of per-sample adaptations.",
        "float observables compared at 1e-6; alphabet of 3 letters; the trainer sum-reduction clause is covered by C08",
    ),
    "C08": (
        "model_checking", "DESIGN.md §3 C08",
        "exhaustive pre/post spike-history enumeration (histories as batch, identity batch reduction) on real trainers driven through "
        "Serial(connection, ExactNeuron), against pair/triplet/eligibility sums computed from the history alone",
        "STDP, TripletSTDP, MSTDP and MSTDPET x four sign modes x cumulative/nearest x dt {1,.5}: all 4^T pre/post histories of a 1x1 cell "
        "(T=4 quick, 6 thorough) without delays and with every delay in {0,dt,2dt} in both delayed and delay-frozen modes; all histories of "
        "length 2 (3) of 2x2 dense, direct-2, lateral-2, conv and rectangular dense cells with every per-synapse delay assignment; after "
        "every step accumulated pos-neg equals the reference and both parts are non-negative. All pairs of length-2 histories with "
        "mean/sum/default reductions, scalar and per-sample signals check the reduced update and the weight after update().",
        "delays on the step grid; time constants fixed per trainer; the 'randomly for larger populations' clause replaced by exhaustive tiny "
        "populations; tolerance 1e-5",
    ),
    "C18": (
        "model_checking", "DESIGN.md §3 C18",
        "exhaustive pre/post history enumeration (as batch) with enumerated per-synapse delay schedules against a reference that keeps the "
        "true last spike times; dedicated, kernel-based and unadjusted implementations run side by side (cross-implementation oracle)",
        "DelayAdjustedSTDP/STDPD/MSTDP/MSTDPD and DelayAdjustedKernelSTDP/STDPD x four sign modes x dt {1,.5}: all 4^T histories of a 1x1 "
        "cell (T=4 quick, 5 thorough) for every delay in {0,dt/2,dt,2dt}, constant or changing between steps, and all short histories of "
        "2x2 dense / direct / lateral / conv cells; after every step the accumulated change equals the t_delta formula (causal branch iff "
        "t_delta>=0, nothing while either side is silent), parts are non-negative, the kernel rule with the shipped exponential kernels "
        "equals the dedicated rule part by part, zero delays equal KernelSTDP, and with update() applied the parameter follows the formula.",
        "scalar reward signals in the histories-as-batch runs; delays from a 4-value alphabet; tolerance 1e-5",
    ),
    "C09": (
        "model_checking", "DESIGN.md §3 C09",
        "exhaustive pre/post (and postsynaptic-rate) history enumeration on every shipped trainer with the parts handed to the updater "
        "compared, part by part, with the same-signed terms of the signed rule; probes for direction and bound routing",
        "For STDP, triplet, MSTDP, MSTDPET, KernelSTDP, the six delay-adjusted rules and LinearHomeostasis (weight/bias/delay, +-plasticity, "
        "targets above and below every observed rate) x four sign modes: after every step of every history (length 3-5) both parts are "
        ">= 0, pos-neg equals the signed rule and each part equals the sum of the same-signed terms; causal/anti-causal pairs and reward "
        "signs move the real weight in the documented direction; zero upper/lower bound probes leave exactly the other part applied.",
        "same driver and tolerances as C08/C18; known finding: LinearHomeostasis' depressing part is non-positive (see known_findings.json)",
    ),
    "C14": (
        "model_checking", "DESIGN.md §3 C14",
        "exhaustive enumeration of setter sequences from every constructor configuration on real components, differential against a "
        "freshly constructed component of the configuration reached",
        "For 4 synapse classes, 4 neuron classes, LinearDense (incl. synapse replacement) and 4 reducers: from every constructor "
        "configuration every setter sequence of length <=2 (quick) / <=3 (thorough) over dt, delay, batchsz, duration, inplace, synapse, "
        "dtype is applied; at every node getters must report the assignment, no other getter may change, every internal record must have "
        "the size/shape/dtype/temporal parameters of a fresh component, and after clear() outputs (incl. delayed reads, dumps) must be "
        "bitwise equal on all boolean input histories of length 2 (3).",
        "configuration value sets are small; layers are covered through their connection/neuron components; tolerance none (bitwise)",
    ),
    "C12": (
        "fault_enumeration", "DESIGN.md §3 C12",
        "crash-point enumeration: every step index of a run is a checkpoint; state dicts are serialised, loaded into fresh / warmed / "
        "already-run targets and the continuation is compared bitwise with the uninterrupted run",
        "Eight models (dense+single-exp+LIF+STDP(delayed), direct+delta+ALIF+TripletSTDP, lateral+double-exp+AdEx+MSTDPET, "
        "conv+delta-plus+Izhikevich+KernelSTDP, Biclique+LinearHomeostasis, RecurrentSerial+DelayAdjustedSTDP, six stand-alone reducers "
        "with multi-step durations, MaxRateClassifier), in-place and out-of-place, T=8 steps with training and weight updates every step: for "
        "every k in [0,8] and every target state, all outputs, state tensors, logical record histories, adaptations, parameters and derived "
        "classifier buffers after k equal the uninterrupted run.",
        "one deterministic input pattern per model; checkpoint goes through torch.save/load (a live state_dict aliases buffers); fresh targets "
        "are warmed by one step as the property allows",
    ),
    "C15": (
        "model_checking", "DESIGN.md §3 C15",
        "explicit-state BFS over trainer/monitor lifecycle events on a real Biclique layer with one or two real trainers against a registry model; "
        "absolute (observation counts, listings, hook handles) and differential (solo-world projection) oracles on every transition",
        "All event sequences up to depth 5 (one trainer, with custom monitors) / 4 (two trainers) / 3 (two trainers with custom monitors) over "
        "register_cell, del_cell, add/del custom monitor (pooled, unique), trainer train/eval, layer train/eval, layer step, trainer step, "
        "clear and drop-and-collect, for STDP, MSTDPET and KernelSTDP trainers on two cells that share a postsynaptic population; thorough "
        "tier two levels deeper. Every monitor must record exactly one observation per armed layer step, listings must equal the "
        "registry, live hooks must equal armed monitors, and a trainer's monitor data must equal the data in the world where the other "
        "trainer's events never happened.",
        "canonical-state dedup (registry, modes, aliasing classes, cell-side name owners, hook count, data flags); known finding: MSTDPET's "
        "eligibility monitors read other monitors through the per-cell name map shared by all trainers (see known_findings.json)",
    ),
}

PENDING_REASON = "check not built yet in this session (claimed in DESIGN.md; will move to checks when its exploration exists)"


def main():
    props = [json.loads(l) for l in open(os.path.join(HERE, "properties.jsonl"))]
    checks, na = [], []
    for p in props:
        pid = p["id"]
        has_mod = bool(glob.glob(os.path.join(HERE, "checks", f"{pid.lower()}_*.py")))
        if pid in CHECKS and has_mod:
            cat, ref, tech, text, note = CHECKS[pid]
            checks.append({
                "property_id": pid,
                "quick_cmd": f"{PY} /verif/run_check.py {pid} --tier quick",
                "thorough_cmd": f"{PY} /verif/run_check.py {pid} --tier thorough",
                "evidence_file": f"/verif/evidence/{pid}.json",
                "replay_cmd_template": f"{PY} /verif/run_check.py {pid} --replay {{path}}",
                "engine": "mc",
                "level_claimed": {"category": cat, "text": text, "design_ref": ref},
                "level_note": note,
                "technique": tech,
            })
        else:
            na.append({"property_id": pid, "reason": NA.get(pid, PENDING_REASON)})
    hooks_commits = []
    man = {
        "version": 1,
        "setup_cmd": f"{PY} /verif/tools/setup_check.py",
        "hooks": {
            "guard": "INFERNO_VERIF",
            "enable": "no source hooks are needed: checks import /repo's working tree directly (VERIF_REPO overrides the path); "
                      "INFERNO_VERIF=1 is exported by the runner but nothing in /repo reads it",
            "baseline_off_cmd": f"{PY} /verif/tools/baseline.py /repo",
            "source_commits": hooks_commits,
            "add_only": True,
        },
        "engines": [
            {"name": "mc", "path": "/verif/mc", "serves_properties": [c["property_id"] for c in checks],
             "kind_free_text": "hand-written bounded exhaustive explorer for Python: explicit-state BFS over the product of the real "
                               "object and a reference model (E1), history-trie enumeration (E2), finite-domain sweeps (E3), "
                               "environment-answer / fault-point enumeration (E4); fork pool over configurations"},
        ],
        "checks": checks,
        "not_applicable": na,
        "notes": "Known findings: /verif/known_findings.json. Seeded property-breaking changes: /verif/seeded/. "
                 "exit 2 from a check means the machinery failed (crash, vacuity floor), never a property verdict.",
    }
    out = os.path.join(HERE, "MANIFEST.json")
    with open(out, "w") as f:
        json.dump(man, f, indent=1)
    r = subprocess.run(["python3-vt", "-c", (
        "import json,jsonschema,sys;"
        "jsonschema.validate(json.load(open('%s')), json.load(open('/root/.vp/MANIFEST.schema.json')));print('MANIFEST valid: %d checks, %d not_applicable')"
        % (out, len(checks), len(na)))], capture_output=True, text=True)
    print(r.stdout.strip() or r.stderr[-800:])
    sys.exit(r.returncode)


NA = {}

if __name__ == "__main__":
    main()
