#!/usr/bin/env python3
"""Fills needs_to_manifest / ran in the wave-4 seeded/<ID>-<a4|b4>/meta.json (texts condensed from the authors' notes.md)."""
import json, os
RAN = ("tools/seed_confirm.py: demo on clean scratch worktree (exit 0), patch applied, demo again (exit != 0), pinned suite with the "
       "patch (stable-pass set), then the property's quick check with VERIF_REPO=<scratch worktree>")
NEEDS = {
 "C01-a4": "decr(pos) with pos >= 2 whose step crosses slot 0 (pointer < pos), or pos > N",
 "C01-b4": "pointer off slot 0 (push / incr), then align(k) with k % N != 0, then any read; plain buffer storage only",
 "C02-a4": "scalar-time insert with tolerance=0.0 at a time that is an exact multiple of dt (on-grid test < instead of <=)",
 "C02-b4": "push a count that is not a multiple of the record size, then assign duration / inclusive, then select (reconstrain before align)",
 "C03-a4": "GLIF1 only with refrac_lock=False, reset_v != rest_v, a spike and refrac_t > dt",
 "C03-b4": "Izhikevich: a spiking step, then clear() (or batchsz assignment), then a supra-threshold step inside the old refractory window",
 "C04-a4": "DoubleExponentialCurrent with delay > 0, interp_tol well above 1e-6 and a current_at selector off the grid but within interp_tol of a step",
 "C04-b4": "DeltaPlus / SingleExponential: construct, then assign delay or dt, then run, then current_at with a non-zero selector",
 "C05-a4": "Conv2D with a non-square kernel: presyn_receptive splits the receptive axis with the wrong row length",
 "C05-b4": "Conv2D: forward, then weight reassigned through the setter / updater, then forward again (cached flattened kernel)",
 "C06-a4": "SingleExponentialCurrent(spike_interp_mode='nearest') with a delay of (k+f) steps, 0 < f < 0.5: synspike / spike_at",
 "C06-b4": "a dt assignment that leaves the record size unchanged (D=2.0: 1.0 -> 1.3), then a run with delays > 0",
 "C07-a4": "CumulativeTraceReducer built with a non-default tolerance and an observation with 0 < |h - target| <= tolerance",
 "C07-b4": "observe, clear(keepshape=True), then read or observe (the no-observation-yet flag is only re-armed by keepshape=False)",
 "C08-a4": "MSTDPET with register_cell(..., tc_eligibility=X) different from the constructor value and a pre-triggered contribution",
 "C08-b4": "trainer.eval(), then register_cell, then layer steps with spikes, then trainer.train() and training (monitors created in eval mode stay hooked)",
 "C09-a4": "MSTDPET, a register_cell(lr_pre=...) override of opposite sign to the constructor's, reward passed as a Python scalar",
 "C09-b4": "Accumulator.lowerbound(...) first, then any upperbound(...) call, then a depressing part and update()",
 "C10-a4": "a non-default reduction (mean / amax) and at least two depressing parts for one parameter before the update",
 "C10-b4": "lowerbound then upperbound on one accumulator (or the upper limit re-set mid-run), then a depressing contribution",
 "C11-a4": "LinearHomeostasis with the reduction requested per cell, register_cell(..., batch_reduction=torch.sum), batch size > 1",
 "C11-b4": "RecurrentSerial: run at one batch size, batchsz setters on all components, layer.clear(), run at the new size (stale feedback buffer)",
 "C12-a4": "MaxRateClassifier restored into a copy.deepcopy of another classifier (the load hook closes over the original)",
 "C12-b4": "two instances loading the same in-memory state dict (or B.load_state_dict(A.state_dict()) and both keep stepping): shared extras dict",
 "C13-a4": "reconstrain on a record whose storage is an UninitializedBuffer / UninitializedParameter",
 "C13-b4": "push, align(-k) (negative index stored as given), then a size-changing dt assignment, then a read",
 "C14-a4": "DoubleExponentialCurrent configured through the dt / delay setter, then a delayed read (neg_current_ not enrolled as delayed)",
 "C14-b4": "reducer constructed with inclusive=X, record-level inclusive flipped, then duration assigned (inclusive silently reverted)",
 "C15-a4": "add_monitor(..., unique=True) where the name already exists on the cell, or on two cells of one layer (the flag lands in **tags and is ignored)",
 "C15-b4": "trainer.eval(), then register_cell / add_monitor, then a layer step in training mode (monitors created in eval mode stay hooked)",
 "C16-a4": "Clamping constructed with train_update != eval_update, observed in eval mode (eval flag follows the train flag)",
 "C16-b4": "Normalization on a plain-tensor attribute: run, in-place change of the target (same object), run again (identity-based skip)",
 "C17-a4": "RecurrentSerial with a non-additive feedfwd_out_transform and non-zero feedback current (transform applied to the sum)",
 "C17-b4": "a connection with an updater attached and a stateful synapse (exponential / delayed): run, layer.clear(), replay",
 "C18-a4": "DelayAdjustedSTDP with a register_cell(lr_neg=...) override of opposite sign to the constructor's and an acausal pair",
 "C18-b4": "DelayAdjustedMSTDP in a one-part sign mode: depressive step, connection.update(), then a purely potentiative step (stale neg cache)",
 "C19-a4": "HomogeneousPoissonEncoder online with an explicit refrac of at least 2 steps (the online call drops the refrac keyword)",
 "C19-b4": "compensated encoder: a REJECTED frequency assignment (ValueError) is nevertheless stored and used by the next run",
 "C20-a4": "victor_purpura_pair_dist with a cost tensor of two or more entries (the minimum also reduces over the cost axis)",
 "C20-b4": "victor_purpura_pair_dist shifts the caller's spike-time vectors in place: a vector re-used with another partner",
}
for k, v in NEEDS.items():
    mp = f"/verif/seeded/{k}/meta.json"
    if not os.path.exists(mp):
        print("missing", k)
        continue
    m = json.load(open(mp))
    m["needs_to_manifest"] = v
    m["ran"] = RAN
    m["wave"] = 4
    json.dump(m, open(mp, "w"), indent=1)
print("annotated", len(NEEDS))
