#!/usr/bin/env python3
"""python3-vt tools/validate_evidence.py  -- validates every evidence file against the schema"""
import glob, json, sys, jsonschema
sch = json.load(open('/root/.vp/EVIDENCE.schema.json'))
bad = 0
for f in sorted(glob.glob('/verif/evidence/*.json')):
    try:
        jsonschema.validate(json.load(open(f)), sch); print('ok ', f)
    except Exception as e:
        bad += 1; print('BAD', f, str(e)[:300])
sys.exit(1 if bad else 0)
