#!/venv/bin/python
"""MANIFEST.setup_cmd: nothing to build (pure Python); verify the offline toolchain is usable."""
import os, sys
sys.path.insert(0, os.path.dirname(os.path.dirname(os.path.abspath(__file__))))
from mc import common
torch = common.setup_imports()
import einops, inferno
print("setup ok: torch", torch.__version__, "inferno from", os.path.dirname(inferno.__file__))
