#!/usr/bin/env python3
"""Fills needs_to_manifest / ran in the wave-5 seeded/<ID>-<a5|b5>/meta.json (texts condensed from the authors' notes.md)."""
import json, os
RAN = ("tools/seed_confirm.py: demo on clean scratch worktree (exit 0), patch applied, demo again (exit != 0), pinned suite with the "
       "patch (stable-pass set), then the property's quick check with VERIF_REPO=<scratch worktree>")
NEEDS = {
 "C01-a5": "a range write of exactly recordsz observations (on a size-1 record: every writerange)",
 "C01-b5": "an initialised record, out-of-place write / push of an observation whose dtype promotes above the record's (DOCUMENTED: 'may cause the data type of the stored tensor to change' - within documented behaviour, not detected)",
 "C02-a5": "scalar-time off-grid insert (inplace=False) on a record of exactly 2 slots: the two bracketing slots are the whole record",
 "C02-b5": "tensor-time select with an integer-typed time tensor (torch.isclose requires equal dtypes)",
 "C03-a5": "a float32 integrated voltage bit-for-bit equal to the threshold (> for >=); all classes but GLIF2",
 "C03-b5": "ALIF with batch size > 1: adaptation state allocated with the batched shape, so the batch reduction never runs (at batch 1 only the shape differs)",
 "C04-a5": "a maximum delay shorter than one step (0 < delay < dt): two slots, but any non-zero selector gets the overbound value",
 "C04-b5": "DoubleExponentialCurrent undelayed with a multi-dimensional synapse shape and a selector with a trailing D dimension",
 "C05-a5": "Conv2D constructed with delay=0.0 (documented to behave as undelayed) takes the delayed branch and raises",
 "C05-b5": "Conv2D with a non-square output: outshape / batched_outshape advertise height and width transposed",
 "C06-a5": "tolerance exactly 0 and an on-grid delay k*dt at a non-representable step time where (k*dt)/dt is not an integer in float32 (1.7 x 6, 0.1 x 13)",
 "C06-b5": "a connection converted to float64, non-dyadic step time, tolerance below 1e-7: the bounded selector is rounded to float32",
 "C07-a5": "EventReducer(initial='inf'/'nan') with a multi-step duration, fresh storage, fewer observations than slots: views / dump of the unobserved history",
 "C07-b5": "trace_cumulative / exp_trace_cumulative called directly with bool or integer observations, an event on the very first step, amplitude != 1",
 "C08-a5": "MSTDP with a per-sample reward tensor whose entries all share one sign (always so at batch size 1) in Hebbian / anti-Hebbian / depressive-only mode",
 "C08-b5": "LinearLateral cell with connection delays > 0 and more than one neuron, in both trainer delay modes (square shapes broadcast silently)",
 "C09-a5": "Accumulator.upperbound(fn, 0.0): an upper limit of exactly 0.0 is treated as no bound (truthiness)",
 "C09-b5": "MSTDPET on a LinearDense / Conv2D cell with a per-sample reward tensor and batch > 1 (broadcast hard-codes one trailing dimension)",
 "C10-a5": "half bounds set, then an update made only of depressing parts: the depressing part goes through the upper bounding function",
 "C10-b5": "a float64 model: contributed parts are rounded to float32 before they are stored",
 "C11-a5": "ALIF / GLIF2 with a learned adaptation assigned through the property and batch size exactly equal to the group's leading dimension",
 "C11-b5": "DelayAdjustedMSTDP with a per-sample tensor signal, batch > 1 and a connection whose weight is not 2-D (LinearDirect, Conv2D)",
 "C12-a5": "a multi-slot ring buffer whose write position is exactly 0 at the checkpoint (falsy extras are not saved) and a target at another position",
 "C12-b5": "LIF / GLIF1 in a .double() model: the target is clear()ed right before the load, so its buffers are float32 and round the checkpoint",
 "C13-a5": "a record with duration 0 and inclusive False (one slot), then any assignment to dt: recordsz becomes 0",
 "C13-b5": "initialised bool / integer / half-precision storage and a growing resize (padding in the default dtype promotes the storage)",
 "C14-a5": "reducer at duration 0 (the default): assign dt, then assign a duration > 0 (the record's own dt went stale)",
 "C14-b5": "batchsz / delay increased on a synapse: the boolean spike_ history silently becomes float32 (same slip as C13-b5)",
 "C15-a5": "a cell with at least two monitors and del_monitor calls until exactly one is left (the survivor's group is dropped from the pool)",
 "C15-b5": "one trainer on the cells of a RecurrentSerial whose two populations differ in size: first step of a run / after clear()",
 "C16-a5": "a hook constructed with train_update=False and eval_update=False fires on every module call",
 "C16-b5": "Normalization(dim=None) on a non-contiguous target (transposed / permuted / expanded): flatten by view raises",
 "C17-a5": "RecurrentSerial.clear() on a freshly built layer that has not run yet (zeros_like(None)); batch size changed after clear()",
 "C17-b5": "a layer converted with .to(float64): LIF / GLIF1 clear() leaves float32 voltage and refractory buffers",
 "C18-a5": "DelayAdjustedMSTDP with register_cell(lr_neg=0.0) (or lr_pos=0.0) while the trainer default is non-zero: the override of exactly 0 is dropped",
 "C18-b5": "DelayAdjustedMSTDPD with a per-sample reward tensor, batch > 1 and a parameter that is not 2-D (LinearDirect, Conv2D)",
 "C19-a5": "offline HomogeneousPoissonEncoder with an explicit refrac of exactly 0.0 (floor division by zero)",
 "C19-b5": "online HomogeneousPoissonEncoder with refrac >= 2 steps and a non-contiguous intensity tensor (re-drawn intervals written to a copy)",
 "C20-a5": "isi on a raster holding exactly one spike train, in any layout ((T,), (T,1), (1,T))",
 "C20-b5": "victor_purpura_pair_dist with int64 spike times and a fractional finite cost (the grid takes the spike times' dtype)",
}
for k, v in NEEDS.items():
    mp = f"/verif/seeded/{k}/meta.json"
    if not os.path.exists(mp):
        print("missing", k)
        continue
    m = json.load(open(mp))
    m["needs_to_manifest"] = v
    m["ran"] = RAN
    m["wave"] = 5
    json.dump(m, open(mp, "w"), indent=1)
print("annotated", len(NEEDS))
