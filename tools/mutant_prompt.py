#!/usr/bin/env python3
"""prints the brief handed to an independent sub-agent that seeds a property-breaking change"""
import sys
pid = sys.argv[1]
wave = sys.argv[2] if len(sys.argv) > 2 else "1"
wt = f"/tmp/wt/{pid}" if wave == "1" else f"/tmp/wt{wave}/{pid}"
import json, os, glob
_props = {json.loads(l)["id"]: json.loads(l) for l in open("/verif/properties.jsonl") if l.strip()}
_pf = f"/tmp/wt/prop_{pid}.txt"
if os.path.exists(_pf):
    prop = open(_pf).read()  # property text only
else:
    _p = _props[pid]
    prop = (f"{pid} - {_p.get('title', '')}\n\n{_p.get('statement', _p.get('description', ''))}\n\n"
            f"Quantified over: {_p.get('quantifier', {}).get('text', '')}\n\n"
            f"Anchored in: {', '.join(_p.get('anchors', {}).get('files', []))}\n")
earlier = ""
if wave in ("3", "4", "5", "6", "7", "8"):
    # one-line descriptions of the changes earlier authors already produced for this property (their own words; nothing of /verif's checks)
    lines = []
    for d in sorted(glob.glob(f"/verif/seeded/{pid}-*/")):
        mp = os.path.join(d, "meta.json")
        if os.path.exists(mp):
            m = json.load(open(mp))
            head = ""
            np_ = os.path.join(d, "notes.md")
            if os.path.exists(np_):
                head = next((l.strip("# ").strip() for l in open(np_) if l.strip()), "")
            lines.append(f"  - {head} [needs: {m.get('needs_to_manifest', '?')}]")
    earlier = ("Other people have ALREADY produced the following changes for this property; do NOT reproduce any of them or a close variant "
               "(different function, different mechanism, different trigger please):\n" + "\n".join(lines) + "\n\n")
print(f"""You are working alone in a scratch git worktree of the Python library mdominijanni/inferno
(a spiking-neural-network simulation library on PyTorch) at {wt}. Work ONLY inside {wt}.
Do not read, list or modify anything under /verif or /repo, and do not look for other people's checks
or notes anywhere on this machine: your work must be independent.

Here is a semantic property that the library is supposed to satisfy:

-----
{prop}
-----

YOUR TASK: produce TWO different, independent source changes ("mutant a" and "mutant b") to the library
code under {wt}/inferno that each BREAK this property, while the library still imports and the existing test
suite still passes. Each change should look like a realistic slip a maintainer could make in a refactor
(an off-by-one in index arithmetic, a swapped argument, a stale cache, a wrong branch condition, state
not reset/persisted, a wrong dimension, ...), 1-6 changed lines, NOT a deliberate sabotage guarded by a
magic constant. Prefer changes that need something SPECIFIC to manifest: a particular multi-step sequence of
operations, a particular pointer position / size / wrap-around, an unusual but legal input or configuration,
an interaction between two call sites that each look fine alone. Do not choose a change that ordinary
use would expose at once, and do not pick two mutants in the same few lines.
The two mutants should touch different mechanisms / different aspects of the property.
""" + ("""At least one of the two should concern a clause of the property OTHER than its first sentence, and at least one should
involve an interaction of two code sites (or a code path that only a non-default argument / less common class reaches).
Prefer files and functions that are not the most obvious anchor of the property.
""" if wave == "2" else "") + ("""Mutant a should be a STATE / ALIASING / ORDERING slip: e.g. an in-place operation on a tensor that is shared with the caller or
with stored state, a missing .clone() so that a returned/stored tensor aliases a buffer that is later overwritten, a local scratch
tensor hoisted to module/instance scope, a cursor/pointer/counter advanced before (or after) the write it guards, a flag or cache
updated on one path but not on the sibling path, state that survives a clear()/reset or is lost by one.
Mutant b should be an ARITHMETIC / SEMANTIC slip in a helper that the anchored code CALLS but that lives in another file or
layer of the library (inferno/functional, inferno/core/math, inferno/core/tensor, inferno/_internal, a mixin, a base class),
and it should manifest only for one particular element of the property's 'Quantified over' domain that is not the default
(a particular class, mode, option, dtype, shape or boundary value listed there).
""" + earlier if wave == "3" else "") + ("""Mutant a should be an OPTION slip: pick a keyword argument, mode, flag or class variant that the property's 'Quantified over'
line mentions (or that the public API of the anchored files offers) and that is NOT the default, and break the library only on
that path - an option ignored on one of two branches, applied twice, read from the wrong attribute, a wrong default propagated
to a sub-component, `<` for `<=` at the option's boundary value, the wrong one of two sibling dimensions (-1 / -2), and so on.
Mutant b should be a SEQUENCE slip: a bug that needs at least THREE public API calls in a particular order to manifest
(configure -> run -> reconfigure -> run; register -> deregister -> register -> use; write -> resize -> read; train -> eval ->
train; clear in the middle of a run ...), where every shorter prefix and every pair of those calls alone still behaves correctly.
""" + earlier if wave == "4" else "") + ("""Mutant a should be a BOUNDARY / DEGENERATE-VALUE slip: correct for every ordinary value and wrong only at an edge that the property's
'Quantified over' domain explicitly or implicitly includes - a size or count of exactly 1 (or exactly the maximum), a zero (delay 0,
duration 0, refractory period 0, rate 0, empty train, zero vector), a value exactly on a threshold / limit / tolerance, an index
that just wraps, a negative index, the first or the last step of a run, a time exactly on the grid or exactly half-way between
two grid points (`<` for `<=`, `ceil` for `floor`, `max(x, 1)` dropped, an off-by-one in a range or a slice).
Mutant b should be a SHAPE / DTYPE / LAYOUT generality slip: correct for the flat float32 shapes that simple tests use and wrong
for a legal but less common tensor - a multi-dimensional neuron / observation shape such as (2, 3), a trailing or singleton
dimension, batch size > 1 together with a non-square shape, a non-contiguous or expanded (stride-0) input, float64 / bool / int64
data, time-first versus time-last layout (a reshape that should be a permute, `dim=-1` for `dim=1`, `view` on a non-contiguous
tensor, a hard-coded number of dimensions, a reduction over the wrong axis that coincides for square or 1-D shapes).
""" + earlier if wave == "5" else "") + ("""Mutant a should be a DOCUMENTED-DETAIL slip: read the docstrings (Notes, Important boxes, formulas, argument descriptions,
'Returns' sections) of the functions and classes the property is anchored in and of what they call; pick one concrete documented
detail that the property relies on - a formula term, the meaning of an argument or of a returned value, an ordering, a unit, which
of two quantities is used, what happens for None - and make the code silently deviate from exactly that detail while staying
plausible (the docstring stays as it is).
Mutant b is your FREE CHOICE: the subtlest property-breaking change you can find that is not in the list below - think about
what a careful reviewer would most likely wave through.
""" + earlier if wave == "6" else "") + ("""Mutant a should be an OPTIMISATION slip: introduce a plausible performance shortcut into code the property depends on - a cached
value that is not invalidated when one of its inputs changes, a fast path / early return for "the common case" whose condition is
slightly too broad, an out-of-place operation replaced by an in-place one, something hoisted out of a loop although it depends on the
loop variable, a buffer reused between calls, work skipped because "nothing changed" judged by the wrong thing, a loop vectorised with
a broadcast that is only right for some shapes - so that the result is wrong exactly where the shortcut's assumption fails.
Mutant b should be a COMBINATION slip: correct for every feature in isolation and for the combinations the tests use, wrong only when
TWO specific legal features meet (for instance a delay together with batch size > 1, an override together with sharing, training mode
together with a resize, one particular class together with one particular option, two components of one container), preferably in a
file that none of the changes listed below touches.
""" + earlier if wave == "7" else "") + ("""Mutant a should be a COOPERATING-SITES slip: change TWO places (in different functions, ideally different files) so that each
change ALONE leaves the library correct (or is a harmless refactor) and only the two TOGETHER break the property - e.g. a helper
that now returns a view where its one caller now mutates in place; a default changed in a base class together with a subclass that
stops passing the argument explicitly; a value now stored pre-scaled in one place and scaled again in another on one path only.
Say in notes.md why each half alone is harmless.
Mutant b should be a LIFECYCLE / MODE slip: wrong only across a lifecycle or mode transition of the objects involved - train() <->
eval() switches, copy.deepcopy of a live object, state_dict() / load_state_dict() round trips, .to(dtype) / .double() conversions
of a module that already holds state, re-use of one object after clear()/reset, a second instance created after the first has run
(class-level or module-level state), garbage left by a failed (exception-raising) call that the caller catches and then continues.
Keep the time budget in mind: you have about 20 minutes in total, so keep each mutant small and stop as soon as both are verified.
""" + earlier if wave == "8" else "") + f"""
For EACH mutant (a, b):
 1. Make the change in the worktree (start each from a clean tree: `git -C {wt} checkout -- .`).
 2. Run the existing test suite and make sure it still passes:
      cd {wt} && PYTHONPATH={wt} /venv/bin/python -m pytest -q -p no:cacheprovider --timeout=900 -x
    (takes ~1 minute; check with `PYTHONPATH={wt} /venv/bin/python -c "import inferno; print(inferno.__file__)"`
    that the worktree copy is the one imported. A few tests draw unseeded random inputs and fail rarely on
    the unmodified tree too - re-run a failing test a couple of times on the clean tree before blaming your
    change; one known always-flaky area is test/learn/test_two_factor_stdp.py::TestSTDP::test_delayed_update.)
    If the suite fails because of your change, pick another change.
 3. Write a small standalone demonstration script demo.py (plain python, run as
      PYTHONPATH={wt} /venv/bin/python demo.py
    ) that exercises the public API, exits 0 on the UNMODIFIED tree and exits non-zero (assert) WITH your
    change applied. Verify both outcomes yourself. Only /venv/bin/python has torch installed.
 4. Save into {wt}/_seed/a/ (resp. {wt}/_seed/b/):
      patch.diff   (output of `git -C {wt} diff -- inferno`)
      demo.py
      notes.md     (what the change is, why the existing tests do not notice, what exactly is needed for it
                    to manifest, the commands you ran and their outcomes)
 5. Restore the clean tree (`git -C {wt} checkout -- .`) - leave _seed/ in place (it is untracked).

Do not commit anything and do NOT use `git stash` (the stash is shared by all worktrees of this repository and other people work
in sibling worktrees; use `git diff > file`, `git checkout -- .` and `git apply file` instead). Do not install anything (there is no network). When done, reply with a short summary
of both mutants (file/line changed, what manifests it) and confirm the test-suite + demo outcomes you observed.
""")
