#!/usr/bin/env python3
"""Fills needs_to_manifest / ran in the wave-2 seeded/<ID>-<a2|b2>/meta.json (texts condensed from the authors' notes.md)."""
import json, os
RAN = ("tools/seed_confirm.py: demo on clean scratch worktree (exit 0), patch applied, demo again (exit != 0), pinned suite with the "
       "patch (stable-pass set), then the property's quick check with VERIF_REPO=<scratch worktree>")
NEEDS = {
 "C01-a2": "scalar-offset readrange whose range ends exactly on the last storage slot (start + length == recordsz)",
 "C01-b2": "a record created with its own dtype whose first push carries another dtype (auto-initialisation on push)",
 "C02-a2": "tensor-time insert beyond dt*(N-1) but within duration: only non-inclusive records (duration > dt*(N-1))",
 "C02-b2": "scalar-time off-grid select on integer-typed storage (full vs fullc: the elapsed-time tensor inherits the storage dtype)",
 "C03-a2": "a neuron whose voltage is at or above threshold while refractory: self-exciting QIF/Izhikevich/EIF/AdEx (reset above critical voltage)",
 "C03-b2": "AdEx only: a spike followed by inspection of the post-spike voltage with reset_v != rest_v",
 "C04-a2": "DoubleExponentialCurrent constructed with current_overbound exactly 0.0 and a selector beyond the delay",
 "C04-b2": "a synapse whose spike and current interpolation modes differ, off-grid spike_at selector",
 "C05-a2": "Conv2D.like_input with bool / integer data and overlapping kernel windows (stride < kernel)",
 "C05-b2": "LinearLateral updated through connection.update(): the diagonal mask lives in the weight/delay setter only",
 "C06-a2": "synapse clear() after activity, then delayed reads: reset(0) must erase the history (falsy fill)",
 "C06-b2": "spike_at at a selector beyond the maximum delay / at the tolerance edge with non-dyadic dt (tolerance and overbound swapped)",
 "C07-a2": "reducer cleared after observations, then views within the duration (zero fill treated as no fill)",
 "C07-b2": "nearest trace with tolerance > 0 and an observation exactly on the tolerance boundary",
 "C08-a2": "Conv2D cell with >= 2 channels and a kernel of more than one element (receptive axis split kernel-major instead of channel-major)",
 "C08-b2": "MSTDP/MSTDPET, connection.update() after every step, a step with a depressing part followed by a step with none (pure sign mode, reward changing sign)",
 "C09-a2": "same Accumulator.neg deleter slip as C08-b2: update every step, reward sign flips between steps in a one-part sign mode",
 "C09-b2": "MSTDP(delayed=True) on a delayed connection: the depressing gate reads the presynaptic trace instead of the delayed spikes",
 "C10-a2": "bound_lower_scaled_power with range != 1 and power != 1",
 "C10-b2": "a second depressing contribution after the reduced neg was already read once (stale functools.cache)",
 "C11-a2": "batch grown through neuron.batchsz = B on a neuron whose resting potential is not 0 (new samples zero-filled after the clear)",
 "C11-b2": "KernelSTDP, batch of >= 2 whose samples give kernel values of opposite sign for one synapse (split after the batch reduction)",
 "C12-a2": "fold reducer (trace/EMA/event) cleared with keepshape=True on one side only, checkpoint right after",
 "C12-b2": "RecurrentSerial whose feedback neurons fired at the checkpoint (feedback_spikes buffer not persistent)",
 "C13-a2": "strict ShapedTensor/RecordTensor: adding a constraint of opposite sign that aliases an already constrained dimension",
 "C13-b2": "assigning RecordTensor.inclusive after construction (duration setter early-returns on an unchanged value)",
 "C14-a2": "assigning a synapse's delay to exactly the current dt (delay setter compares with the step time)",
 "C14-b2": "Izhikevich after .to(float64), then batchsz assignment or clear(): voltage silently float32 again",
 "C15-a2": "one trainer with two cells of one layer (Biclique / trainable feedback) whose same-named monitors observe different components",
 "C15-b2": "MSTDPET with the layer in eval mode and the trainer in train mode: the MultiStateMonitor-built eligibility monitors keep recording",
 "C16-a2": "register, deregister, register again, then drop the last reference while registered (stale detached finalizer is truthy)",
 "C16-b2": "Clamping/Normalization on an attribute path with two or more dots (rsetattr resolves the parent non-recursively)",
 "C17-a2": "RecurrentSerial whose feedback group has a different element count than the feed-forward group; first step / first step after clear",
 "C17-b2": "AdEx in a layer, refrac_t > dt, clear() within the refractory period of a spike, then replay",
 "C18-a2": "DelayAdjustedKernelSTDPD with tensor-valued kernel keyword arguments that differ between the post and pre kernels, t_delta < 0",
 "C18-b2": "Conv2D cell with >= 2 channels and kernel area > 1 under any delay-adjusted / kernel rule",
 "C19-a2": "HomogeneousPoissonEncoder constructed with an explicit refrac, then dt assigned (refrac silently follows dt)",
 "C19-b2": "PoissonIntervalEncoder online with an explicit generator and at least two spikes of one element; global RNG not reseeded between runs",
 "C20-a2": "extrap_linear_backward with the documented adjust=f hook (slope computed from the unadjusted next observation)",
 "C20-b2": "victor_purpura_pair_dist with a cost tensor containing inf and two trains sharing a spike time (inf*0 = NaN propagates through torch.minimum)",
}
for k, v in NEEDS.items():
    mp = f"/verif/seeded/{k}/meta.json"
    if not os.path.exists(mp):
        print("missing", k)
        continue
    m = json.load(open(mp))
    m["needs_to_manifest"] = v
    m["ran"] = RAN
    m["wave"] = 2
    json.dump(m, open(mp, "w"), indent=1)
print("annotated", len(NEEDS))
