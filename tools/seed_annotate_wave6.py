#!/usr/bin/env python3
"""Fills needs_to_manifest / ran in the wave-6 seeded/<ID>-<a6|b6>/meta.json (texts condensed from the authors' notes.md)."""
import json, os
RAN = ("tools/seed_confirm.py --skip-suite: demo on clean scratch worktree (exit 0), patch applied, demo again (exit != 0), then the property's "
       "quick check with VERIF_REPO=<scratch worktree>; the pinned suite with the patch was run by the change's author (outcome in notes.md), "
       "not repeated here because the machine was saturated")
NEEDS = {
 "C01-a6": "readrange(L) called without an offset (documented default 1; the signature default became 0)",
 "C01-b6": "in-place writerange with a Python int offset and observations whose dtype differs from the record's (index_put_ does not cast)",
 "C02-a6": "insert(obs, time) with extrap left at None at an off-grid time (documented default nearest; neighbors writes both slots)",
 "C02-b6": "tensor-time insert whose time misses a grid point by more than the tolerance but less than tolerance + 1e-5*|t| (isclose rtol), far back",
 "C03-a6": "0 < refrac_t < dt: every idle neuron reports spike == True; also float rounding keeps the flag up one extra step for some (dt, refrac_t)",
 "C03-b6": "refrac_lock toggled per call inside one refractory period: free step (voltage drifts), then a locked step must hold the drifted voltage",
 "C04-a6": "DoubleExponentialCurrent with spike_overbound and current_overbound of different truthiness (spike record gets the current's value)",
 "C04-b6": "DoubleExponentialCurrent, delay > 0, interp_tol > 1e-6 and a selector within the tolerance of a step (rise component uses the default tolerance)",
 "C05-a6": "LinearLateral constructed without weight_init: the diagonal is not masked at creation (only on assignment)",
 "C05-b6": "LinearLateral.presyn_receptive delegates to the postsynaptic reshape (documented B x 1 x N x 1)",
 "C06-a6": "a new maximum delay of exactly one step assigned through the setter (conn.synapse.delay = dt) is dropped",
 "C06-b6": "DeltaPlus / SingleExponential: maximum delay or step time changed after construction, delays above the old maximum",
 "C07-a6": "nearest scaled trace family: first observation, a non-matching element with non-zero observation starts at s*h instead of 0",
 "C07-b6": "EMAReducer constructed with inplace != inclusive and a multi-step duration (the two booleans swapped positionally)",
 "C08-a6": "MSTDP built without batch_reduction and batch size > 1 (falls back to mean instead of the documented sum)",
 "C08-b6": "one STDP trainer, two cells sharing a postsynaptic neuron group, equal post-side rates but a different lr_pre (pooled trace_post)",
 "C09-a6": "DelayAdjustedMSTDP with a per-sample reward tensor and a negative scale (documented: its absolute value is used)",
 "C09-b6": "same pooled trace_post slip as C08-b6, produced independently",
 "C10-a6": "full unscaled power bounding with upper_power != lower_power and a non-zero depressing part (lower_power ignored)",
 "C10-b6": "a reduction that is not the identity on a single slice (damped / clipped sum) and exactly one part on a side",
}
for k, v in NEEDS.items():
    mp = f"/verif/seeded/{k}/meta.json"
    if not os.path.exists(mp):
        print("missing", k)
        continue
    m = json.load(open(mp))
    m["needs_to_manifest"] = v
    m["ran"] = RAN
    m["wave"] = 6
    json.dump(m, open(mp, "w"), indent=1)
print("annotated", len(NEEDS))
