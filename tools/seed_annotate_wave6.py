#!/usr/bin/env python3
"""Fills needs_to_manifest / ran in the wave-6 seeded/<ID>-<a6|b6>/meta.json (texts condensed from the authors' notes.md)."""
import json, os
RAN = ("tools/seed_confirm.py --skip-suite: demo on clean scratch worktree (exit 0), patch applied, demo again (exit != 0), then the property's "
       "quick check with VERIF_REPO=<scratch worktree>; the pinned suite with the patch was run by the change's author (outcome in notes.md), "
       "not repeated here because the machine was saturated")
NEEDS = {
 "C01-a6": "readrange(L) called without an offset (documented default 1; the signature default became 0)",
 "C01-b6": "in-place writerange with a Python int offset and observations whose dtype differs from the record's (index_put_ does not cast)",
 "C02-a6": "insert(obs, time) with extrap left at None at an off-grid time (documented default nearest; neighbors writes both slots)",
 "C02-b6": "tensor-time insert whose time misses a grid point by more than the tolerance but less than tolerance + 1e-5*|t| (isclose rtol), far back",
 "C03-a6": "0 < refrac_t < dt: every idle neuron reports spike == True; also float rounding keeps the flag up one extra step for some (dt, refrac_t)",
 "C03-b6": "refrac_lock toggled per call inside one refractory period: free step (voltage drifts), then a locked step must hold the drifted voltage",
 "C04-a6": "DoubleExponentialCurrent with spike_overbound and current_overbound of different truthiness (spike record gets the current's value)",
 "C04-b6": "DoubleExponentialCurrent, delay > 0, interp_tol > 1e-6 and a selector within the tolerance of a step (rise component uses the default tolerance)",
 "C05-a6": "LinearLateral constructed without weight_init: the diagonal is not masked at creation (only on assignment)",
 "C05-b6": "LinearLateral.presyn_receptive delegates to the postsynaptic reshape (documented B x 1 x N x 1)",
 "C06-a6": "a new maximum delay of exactly one step assigned through the setter (conn.synapse.delay = dt) is dropped",
 "C06-b6": "DeltaPlus / SingleExponential: maximum delay or step time changed after construction, delays above the old maximum",
 "C07-a6": "nearest scaled trace family: first observation, a non-matching element with non-zero observation starts at s*h instead of 0",
 "C07-b6": "EMAReducer constructed with inplace != inclusive and a multi-step duration (the two booleans swapped positionally)",
 "C08-a6": "MSTDP built without batch_reduction and batch size > 1 (falls back to mean instead of the documented sum)",
 "C08-b6": "one STDP trainer, two cells sharing a postsynaptic neuron group, equal post-side rates but a different lr_pre (pooled trace_post)",
 "C09-a6": "DelayAdjustedMSTDP with a per-sample reward tensor and a negative scale (documented: its absolute value is used)",
 "C09-b6": "same pooled trace_post slip as C08-b6, produced independently",
 "C10-a6": "full unscaled power bounding with upper_power != lower_power and a non-zero depressing part (lower_power ignored)",
 "C10-b6": "a reduction that is not the identity on a single slice (damped / clipped sum) and exactly one part on a side",
 "C11-a6": "MSTDP constructed without batch_reduction (documented default: sum) and batch size > 1",
 "C11-b6": "MSTDPET with a per-sample reward tensor whose entries share one sign in a call (guards test the index sets, not the joined parts)",
 "C12-a6": "MaxRateClassifier restored into a target whose previous assignments differ (occurrences counted from the stale assignments)",
 "C12-b6": "CAReducer: the observation counter is no longer part of the state dict; source and target have seen different numbers of observations",
 "C13-a6": "strict=False record with constraints of both signs and more dims than the constraints need: a size-changing dt / duration assignment is refused",
 "C13-b6": "an empty tensor with two or more dimensions that violates a constraint is accepted and reported valid",
 "C14-a6": "CumulativeTraceReducer: dt assigned after construction (the cached decay is recomputed from the old step time)",
 "C14-b6": "RecurrentSerial run at one batch size, every component resized through batchsz, layer.clear(), run again (stale feedback buffer)",
 "C15-a6": "one STDP trainer, two cells sharing a neuron group with equal post-side rates and a different lr_pre: trace_post is pooled",
 "C15-b6": "a monitor aliased from the pool is not entered into the requesting cell's cell.monitors (MSTDPET reads through it)",
 "C16-a6": "a post-position Clamping / Normalization built with prepend=True (or always_call=True): the keyword is dropped one level down",
 "C16-b6": "a one-sided Hook (only a prehook or only a posthook) accepts a second register()",
 "C17-a6": "RecurrentSerial built with exactly one of the two input transforms",
 "C17-b6": "ALIF.clear() resets the voltage to reset_v instead of rest_v (reset_v != rest_v)",
 "C18-a6": "two cells of one layer (Biclique / RecurrentSerial) on one delay-adjusted trainer with different spike trains (pool tag uses the cell-relative path)",
 "C18-b6": "DelayAdjustedKernelSTDP with a non-additive batch reduction (amax), batch >= 2, same-sign rates, a causal pair in one sample and an acausal one in another",
 "C19-a6": "online encoder with an explicit refrac that is a multiple of a non-dyadic step time (0.5 // 0.1 == 4.0)",
 "C19-b6": "steps assigned through the setter after construction (written to an attribute nobody reads)",
 "C20-a6": "victor_purpura_pair_dist with cost given as the Python float inf and trains of different spike counts",
 "C20-b6": "LogNormal.variance in float32 for a small scale (<= 5e-3): exp(s^2) - 1 cancels catastrophically",
}
for k, v in NEEDS.items():
    mp = f"/verif/seeded/{k}/meta.json"
    if not os.path.exists(mp):
        print("missing", k)
        continue
    m = json.load(open(mp))
    m["needs_to_manifest"] = v
    m["ran"] = RAN
    m["wave"] = 6
    json.dump(m, open(mp, "w"), indent=1)
print("annotated", len(NEEDS))
