#!/usr/bin/env python3
"""Fills needs_to_manifest / ran in the wave-8 seeded/<ID>-<a8|b8>/meta.json (texts condensed from the authors' notes.md)."""
import json, os
RAN = ("tools/seed_confirm.py --skip-suite: demo on clean scratch worktree (exit 0), patch applied, demo again (exit != 0), then the property's "
       "quick check(s) with VERIF_REPO=<scratch worktree>; the pinned suite with the patch was run by the change's author (outcome in notes.md: "
       "all passed apart from the unseeded-random tests that also fail on the clean tree); my own suite runs were abandoned at load average 150")
NEEDS = {
 "C01-a8": "readrange with a tensor offset held as torch.uint8 and an element greater than the pointer (two sites: unwind helper casts after the subtraction, readrange unwinds the caller's offsets directly)",
 "C01-b8": "state_dict round trip of a record created with persist_temporal=False at a non-zero pointer (pointer no longer an extra); outside C01's operation list - decided by C12",
 "C04-a8": "SingleExponentialCurrent that has seen a spike, then clear() / dt / delay assignment (two sites: RecordTensor.reset default fill None + clear() calling reset() bare); decided by C14",
 "C04-b8": "any synapse with delay > 0 checkpointed at a pointer != 0 into a fresh instance (same slip as C01-b8); decided by C12",
 "C06-a8": "DoubleExponentialCurrent inside a connection, delay (k+f)dt with 0<f<0.5, conn.synspike / spike_at (two sites: constructor default 'nearest' + partialconstructor no longer forwards spike_interp_mode)",
 "C06-b8": "a forward call that raises inside the synapse (wrong feature size) is caught by the caller and the run continues: RecordTensor.push advanced the pointer before the write",
 "C10-a8": "updatesome() with an empty selection while parts are pending (two sites: Updater.clear(*params) + one clear call hoisted out of the loop)",
 "C10-b8": "half bounds on two accumulators with different settings (class-level shared bind list), or fullbound(None) then lowerbound",
 "C12-a8": "neuron inside its refractory period at the checkpoint, target with another remaining refractory time (two sites: ShapedTensor persist_data default False + RefractoryMixin no longer passes it)",
 "C12-b8": "target LinearDense has run, is converted with .double() (parameter storage replaced) and then loads a checkpoint with other delays (cached selector view of the old storage)",
 "C14-a8": "DoubleExponentialCurrent that has seen spikes, then clear() or a dt / delay assignment, compared with a fresh synapse (two sites as C04-a8)",
 "C14-b8": "b.load_state_dict(a.state_dict()) between two LIVE objects without serialisation, then a pointer-moving call on one and a read of the other (set_extra_state adopts the dict instead of copying)",
 "C15-a8": "monitor shared by exactly two cells, del_monitor on one of them (two sites: _aliased counts all occurrences + del_monitor removes the entry first)",
 "C15-b8": "register_cell under a name in use is refused with ValueError, caught, run continues: the live cell's monitors were deregistered before the check",
 "C16-a8": "a StateHook whose hook returns a non-None value (two sites: contextual closures and the state-hook wrapper both return it): torch replaces the module's input / output",
 "C16-b8": "hook created, then the hooked module's mode switched directly, then a manual hook() call without ignore_mode (mode flag copied at construction)",
}
for k, v in NEEDS.items():
    p = f"/verif/seeded/{k}/meta.json"
    if not os.path.exists(p):
        continue
    m = json.load(open(p))
    m["needs_to_manifest"] = v
    m["ran"] = RAN
    m["wave"] = 8
    json.dump(m, open(p, "w"), indent=1)
