#!/usr/bin/env python3
"""Fills needs_to_manifest / ran in the wave-7 seeded/<ID>-<a7|b7>/meta.json (texts condensed from the authors' notes.md)."""
import json, os
RAN = ("tools/seed_confirm.py --skip-suite: demo on clean scratch worktree (exit 0), patch applied, demo again (exit != 0), then the property's "
       "quick check with VERIF_REPO=<scratch worktree>; the pinned suite with the patch was run by the change's author (outcome in notes.md), "
       "not repeated here because the machine was saturated")
NEEDS = {
 "C01-a7": "a tensor-offset readrange(L1) followed on the same record by a tensor-offset readrange(L2) with L2 < L1 (scratch index tensor reused, never shortened)",
 "C01-b7": "writerange of length 1 with a tensor offset on multi-element observations (length-1 fast path converts the offset with int())",
 "C02-a7": "record built from a real initial value (stride-0 expand: all slots share memory) whose first modification is an in-place insert",
 "C02-b7": "0-d observations together with a scalar off-grid time (fullc treats the empty shape () as 'no shape given')",
 "C03-a7": "ALIF / GLIF2, refrac_lock, refrac_t > dt, a step inside the refractory window in which no neuron of the whole tensor fires (adaptation decays instead of being held)",
 "C03-b7": "GLIF2 in training mode stepped with an explicit adapt=False (`adapt or self.training` treats False like None)",
 "C04-a7": "one current_at / spike_at call mixing on-grid and off-grid selectors (fast path guarded by any() instead of all())",
 "C04-b7": "synapse.delay reassigned to a value needing the same number of stored steps (2.0 -> 1.5, 2.5 -> 3.0): the records keep the old duration",
 "C05-a7": "LinearLateral: the connection's own parameter, modified in place, handed back to the weight / delay setter (in-place initialiser, +=, clamp_)",
 "C05-b7": "Conv2D with stride > 1 and (size + 2p - d(k-1)) not a multiple of the stride (output one too small)",
 "C06-a7": "LinearDense / LinearLateral whose learned delays are all non-zero and shorter than one step (fast path falls back to the undelayed map)",
 "C06-b7": "SingleExponentialCurrent(inplace=True) under a learned delay of one step or more (the stored previous current is decayed in place)",
 "C07-a7": "cumulative trace whose target / tolerance makes a zero observation match, on a step whose whole observation tensor is zero",
 "C07-b7": "EventReducer(initial='zero'): a non-event element reads dt instead of 0 after its first observation",
 "C08-a7": "one TripletSTDP trainer, two cells sharing a neuron group (or one connection): the stored previous slow trace is incremented in place",
 "C08-b7": "MSTDP with delayed=True and a synapse delay of one step or more (presynaptic spikes delayed twice)",
 "C09-a7": "same in-place slow-trace slip as C08-a7, produced independently",
 "C09-b7": "DelayAdjustedKernelSTDPD with tensor-valued kernel keyword arguments (the pre kernel receives the post kernel's buffers)",
 "C10-a7": "update parts written only through the accumulator properties (updater.weight.pos = t): a dirty flag set only by the updater's own setter skips the update",
 "C10-b7": "a connection shared by two cells of one layer together with layer.update(clear=False) (applied once per cell)",
 "C11-a7": "synapse with delay > 0, batch > 1 and per-sample selectors whose sample-0 row is all zero while another sample's is not (fast path judged from sample 0)",
 "C11-b7": "LinearDense / LinearLateral with learned delays, run once, batchsz changed, run again (selector view cached per delay tensor, not per batch size)",
 "C19-a7": "PoissonIntervalEncoder online with an exact-zero intensity: the 'never' sentinel equals the number of steps, so the element fires on the last slice",
 "C19-b7": "PoissonIntervalEncoder online with a step time other than 1 ms (steps replaced by the duration in the online branch)",
 "C12-a7": "ALIF whose adapted threshold is cached: a target last stepped in evaluation mode keeps its own threshold after load_state_dict when the run continues in evaluation mode",
 "C12-b7": "DeltaPlusCurrent / SingleExponentialCurrent: the spike ring buffer is no longer persistent while its pointer is",
 "C13-a7": "a refused constraint on an unconstrained dimension stays in the constraint map (written before it is tested)",
 "C13-b7": "duration / inclusive assigned with inclusive=True and a duration/dt ratio a hair above an integer (1.05/0.35): ceil(ratio + 1) loses a slot",
 "C16-a7": "hook registered with both modes enabled, then evalexec / trainexec switched off while registered (mode gate decided once at registration)",
 "C16-b7": "pre-position hook with train_update=False, eval_update=True called in training mode (`a and b or c`)",
 "C17-a7": "ExactNeuron.clear() fills the spike state in place: tensors returned by earlier steps (and the kept feedback) are zeroed",
 "C17-b7": "Serial with connection_name != neuron_name and neuron_kwargs: the keyword arguments are filed under the connection's name",
 "C18-a7": "trainer stepped, del_cell + register_cell under the same name, stepped again: the per-cell monitor lookup is cached and keeps the old monitors",
 "C18-b7": "DelayAdjustedKernelSTDPD built without batch_reduction on a batch > 1 (falls back to the sum; documented and sibling default: mean)",
 "C20-a7": "victor_purpura_pair_dist: equal-length trains at large times differing by less than 1e-5*|t| are declared identical (allclose fast path)",
 "C20-b7": "interp_nearest as a 0/1-weighted lerp: a non-finite unselected neighbour (inf / nan) turns the result into nan",
}
for k, v in NEEDS.items():
    mp = f"/verif/seeded/{k}/meta.json"
    if not os.path.exists(mp):
        print("missing", k)
        continue
    m = json.load(open(mp))
    m["needs_to_manifest"] = v
    m["ran"] = RAN
    m["wave"] = 7
    json.dump(m, open(mp, "w"), indent=1)
print("annotated", len(NEEDS))
