#!/usr/bin/env python3
"""Confirm a seeded property-breaking change and run the property's check against it.

usage: seed_confirm.py <PID> <name> <srcdir> [--checks C01,C13] [--tier quick]
  srcdir contains patch.diff, demo.py, notes.md (written by an independent sub-agent in a scratch worktree)

Steps (all in a fresh scratch worktree of /repo HEAD outside /repo and /verif, removed afterwards):
  1. demo.py passes on the clean tree          2. patch applies; demo.py fails with it
  3. the pinned suite still passes with it (stable-pass set, tools/baseline.py)
then: run the quick check(s) with VERIF_REPO=<that worktree with the patch applied> (equivalent to applying the patch to /repo).
Everything is recorded in /verif/seeded/<PID>-<name>/meta.json.
"""
import json
import os
import shutil
import subprocess
import sys
import time

VERIF = "/verif"
PY = "/venv/bin/python"


def sh(cmd, cwd=None, env=None, timeout=3600):
    p = subprocess.run(cmd, cwd=cwd, env=env, shell=isinstance(cmd, str), capture_output=True, text=True, timeout=timeout)
    return p.returncode, (p.stdout + p.stderr)


def main():
    pid, name, src = sys.argv[1], sys.argv[2], sys.argv[3]
    checks = [pid]
    tier = "quick"
    skip_suite = "--skip-suite" in sys.argv
    if "--checks" in sys.argv:
        checks = sys.argv[sys.argv.index("--checks") + 1].split(",")
    if "--tier" in sys.argv:
        tier = sys.argv[sys.argv.index("--tier") + 1]
    dst = os.path.join(VERIF, "seeded", f"{pid}-{name}")
    os.makedirs(dst, exist_ok=True)
    for f in ("patch.diff", "demo.py", "notes.md"):
        if os.path.exists(os.path.join(src, f)) and os.path.abspath(src) != os.path.abspath(dst):
            shutil.copy(os.path.join(src, f), os.path.join(dst, f))
    meta_path = os.path.join(dst, "meta.json")
    meta = json.load(open(meta_path)) if os.path.exists(meta_path) else {}
    meta.update({"property": pid, "name": name, "origin": "independent sub-agent given only the property text and a scratch worktree"})
    patch = os.path.join(dst, "patch.diff")

    wt = f"/tmp/seedwt_{pid}_{name}_{os.getpid()}"
    sh(["git", "-C", "/repo", "worktree", "add", "--detach", wt, "HEAD"])
    try:
        env = dict(os.environ, PYTHONPATH=wt)
        env.pop("INFERNO_VERIF", None)
        rc0, out0 = sh([PY, os.path.join(dst, "demo.py")], cwd=wt, env=env)
        rca, outa = sh(["git", "-C", wt, "apply", patch])
        if not meta.get("confirmed") or "--reconfirm" in sys.argv:
            rc1, out1 = sh([PY, os.path.join(dst, "demo.py")], cwd=wt, env=env)
            if skip_suite:
                rcs, outs = 0, "skipped"
            else:
                rcs, outs = sh([PY, os.path.join(VERIF, "tools", "baseline.py"), wt])
            meta["confirm"] = {
                "demo_on_clean_tree_exit": rc0, "patch_applies": rca == 0, "demo_with_change_exit": rc1,
                "demo_with_change_tail": out1.strip().splitlines()[-3:], "suite_with_change_exit": rcs,
                "suite_with_change_tail": outs.strip().splitlines()[-3:],
                "repo_head": sh(["git", "-C", "/repo", "rev-parse", "--short", "HEAD"])[1].strip(),
            }
            meta["confirmed"] = bool(rc0 == 0 and rca == 0 and rc1 != 0 and rcs == 0)
        print("confirmed:", meta.get("confirmed"), json.dumps(meta.get("confirm"), indent=1)[:600])
        # run the checks against the changed tree (VERIF_REPO points the check at the scratch copy; this is the
        # same code path as applying the patch to /repo, without disturbing /repo while other work runs)
        results = meta.setdefault("checks", {})
        evdir = os.path.join(VERIF, "evidence")
        for c in checks:
            t0 = time.time()
            evf = os.path.join(evdir, f"{c}.json")
            keep = open(evf).read() if os.path.exists(evf) else None
            cenv = dict(os.environ, VERIF_REPO=wt)
            rc, out = sh([PY, os.path.join(VERIF, "run_check.py"), c, "--tier", tier], cwd=VERIF, env=cenv)
            if keep is not None:
                open(evf, "w").write(keep)  # evidence files describe the unchanged tree
            vl = [l for l in out.splitlines() if l.startswith("VIOLATION") or l.strip().startswith("key=")]
            results[f"{c}:{tier}"] = {"exit": rc, "detected": rc == 1, "wall_s": round(time.time() - t0, 1), "lines": vl[:8]}
            print(f"check {c} [{tier}] exit={rc} detected={rc == 1}")
            for l in vl[:6]:
                print("   ", l[:300])
            if rc not in (0, 1):
                print(out[-1500:])
    finally:
        sh(["git", "-C", "/repo", "worktree", "remove", "--force", wt])
        shutil.rmtree(wt, ignore_errors=True)
    json.dump(meta, open(meta_path, "w"), indent=1)


if __name__ == "__main__":
    main()
