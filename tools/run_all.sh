#!/bin/bash
# usage: tools/run_all.sh quick|thorough [ids...]   - runs every check once, prints one summary line per check
tier=${1:-quick}; shift
ids=${@:-C01 C02 C03 C04 C05 C06 C07 C08 C09 C10 C11 C12 C13 C14 C15 C16 C17 C18 C19 C20}
for id in $ids; do
  s=$(date +%s)
  out=$(/venv/bin/python "$(dirname "$0")/../run_check.py" $id --tier $tier 2>&1); rc=$?
  e=$(( $(date +%s) - s ))
  echo "$id exit=$rc ${e}s :: $(echo "$out" | grep -v '^KNOWN-FINDING' | tail -1 | cut -c1-220)"
  echo "$out" | grep -E '^VIOLATION|key=|HARNESS' | head -8
done
