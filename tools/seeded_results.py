#!/usr/bin/env python3
"""Regenerates /verif/seeded/RESULTS.md from seeded/*/meta.json"""
import glob, json, os
rows = []
for d in sorted(glob.glob('/verif/seeded/*/')):
    mp = os.path.join(d, 'meta.json')
    if not os.path.exists(mp):
        continue
    m = json.load(open(mp))
    name = os.path.basename(d.rstrip('/'))
    own = m.get('property')
    parts = []
    for k, v in sorted(m.get('checks', {}).items(), key=lambda kv: (not kv[0].startswith(own), kv[0])):
        if k.startswith(own):
            parts.append(f"{k}: {'DETECTED' if v['detected'] else 'MISSED (exit %s)' % v['exit']}")
        else:
            parts.append(f"(other property {k}: {'also detects' if v['detected'] else 'silent, as expected'})")
    det = '; '.join(parts)
    keys = []
    for v in m.get('checks', {}).values():
        for l in v.get('lines', []):
            if 'key=' in l:
                keys.append(l.split('key=')[1].split(' ::')[0])
    rows.append((name, m.get('confirmed'), m.get('needs_to_manifest', ''), det, ', '.join(sorted(set(keys))[:3])))
with open('/verif/seeded/RESULTS.md', 'w') as f:
    f.write("# Seeded property-breaking changes (written by independent sub-agents from the property text only)\n\n")
    f.write("Each was confirmed in a scratch worktree (demo passes on the clean tree, fails with the change, pinned suite still passes) "
            "and then run against the property's quick check. Where a check first missed a change it was strengthened; the table shows the final state, "
            "DESIGN.md §9 the history.\n\n")
    f.write("| change | confirmed | needs to manifest | check result | first violation keys |\n|---|---|---|---|---|\n")
    for r in rows:
        f.write(f"| {r[0]} | {r[1]} | {r[2]} | {r[3]} | {r[4]} |\n")
print(open('/verif/seeded/RESULTS.md').read())
