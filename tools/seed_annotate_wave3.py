#!/usr/bin/env python3
"""Fills needs_to_manifest / ran in the wave-3 seeded/<ID>-<a3|b3>/meta.json (texts condensed from the authors' notes.md)."""
import json, os
RAN = ("tools/seed_confirm.py: demo on clean scratch worktree (exit 0), patch applied, demo again (exit != 0), pinned suite with the "
       "patch (stable-pass set), then the property's quick check with VERIF_REPO=<scratch worktree>")
NEEDS = {
 "C01-a3": "record constructed from a real buffer value (expand instead of repeat: all slots share memory) whose first mutating operation is in-place",
 "C01-b3": "scalar read(k) with k > pointer + N (upper half of the [N, 2N] offset range) or a read after align(-k)",
 "C02-a3": "scalar-time off-grid insert, inplace=False, observation dtype that promotes over the storage dtype, non-wrapping bracket slots",
 "C02-b3": "extrap_linear_forward with the documented adjust=f option on off-grid elements",
 "C03-a3": "the caller re-uses one input tensor across steps; a spike with refrac_t > dt (inputs *= mask zeroes the caller's tensor); LIF/ALIF/GLIF1/QIF/EIF",
 "C03-b3": "QIF/Izhikevich/EIF/AdEx with crit_v / rheobase_v strictly below thresh_v, judged against an oracle built from the constructor arguments",
 "C04-a3": "SingleExponentialCurrent with delay > 0: a delayed current_at compared with an independently computed history (in-place update of the previous slot)",
 "C04-b3": "spike_overbound=True or None, or interp_tol > 0: spike_at beyond the delay / at the tolerance edge (overbound and tolerance swapped)",
 "C05-a3": "LinearDirect without delays and a synapse whose current lives in a record (DeltaPlus / SingleExponential); look at syncurrent after the step or run two steps",
 "C05-b3": "DeltaCurrent synapse and an input with non-zero values other than 1 (graded floats / counts)",
 "C06-a3": "LinearDirect with delays: one forward, then delays replaced through the setter conn.delay = D, then another step (stale cached selector)",
 "C06-b3": "DoubleExponentialCurrent only: a per-synapse delay longer than one step (selector clamped at dt, then treated as out of bounds)",
 "C07-a3": "single-slot record (duration 0), inplace=False, float32 observation, Passthrough/EMA/CA reducer, caller mutates the observation tensor afterwards",
 "C07-b3": "multi-step record, view(t) with a Python float t off the grid and not at a midpoint (time to the newer neighbour instead of elapsed time)",
 "C08-a3": "a cell re-used across histories: run, layer.clear()/trainer.clear(), run again with delays or multi-slot reducers (reset(0) keeps the history)",
 "C08-b3": "trace_mode='nearest' and a neuron that spikes again while its trace is non-zero",
 "C09-a3": "KernelSTDP(delayed=True) on a connection with a non-zero learned delay (EventReducer.fold adds dt to the previous slot in place)",
 "C09-b3": "nearest trace mode with a repeated spike (same slip as C08-b3, produced independently)",
 "C10-a3": "updatesome('weight','bias') with two or more names and the default clear, then a second application",
 "C10-b3": "full multiplicative bounding with the upper limit exactly 0 (e.g. range [-1, 0]) and a non-empty potentiating part",
 "C11-a3": "Izhikevich / AdEx with a non-zero frozen current adaptation; the caller's input tensor is modified in place",
 "C11-b3": "GLIF2 in training mode with adaptation frozen through adapt=False (not through eval()), batch size > 1",
 "C12-a3": "out-of-place one-slot records that were last pushed the very same tensor object (they share storage), then load_state_dict",
 "C12-b3": "voltage hyper-parameters written as Python ints and a freshly constructed, never-stepped target (int64 buffer truncates the loaded voltages)",
 "C13-a3": "plain ShapedTensor created from a non-empty constraints dict the caller re-uses or edits later (dict aliased, not copied)",
 "C13-b3": "strict=False, two opposite-sign constraints on one axis with equal size, then one of them edited to another size",
 "C14-a3": "reducer used, then clear(keepshape=True): peek()/dump() not None and the next fold starts from a zero state (EMA, Event(initial='zero'))",
 "C14-b3": "a dt assignment after which delay/duration is not a whole multiple of the step with fractional part in (0, 0.5] (round instead of ceil)",
 "C15-a3": "register_cell, trainer.eval(), trainer.train() (monitors re-registered), then drop the last reference to the trainer and collect, then a layer step",
 "C15-b3": "one trainer with two cells sharing pooled monitors: trainer.monitors lists the shared monitors once per cell (unique() filters nothing)",
 "C16-a3": "hook(ignore_mode=True) without force on a hook that is not registered (never, or registered and deregistered)",
 "C16-b3": "Normalization with a complex scale (documented float | complex): the cast back to the input dtype drops the imaginary part",
 "C17-a3": "Biclique (Layer.clear) with unequal numbers of connections and neuron groups whose uncleared tail holds state (exponential / delayed synapse)",
 "C17-b3": "RecurrentSerial with library neurons and refrac_t > dt: neuron.spike reads as spiking throughout the refractory period",
 "C18-a3": "DelayAdjustedSTDPD with delays changed between steps through a setter / connection.update() after registration (stale cached view)",
 "C18-b3": "LinearLateral under any delay-adjusted rule (presyn_receptive delegated to the postsynaptic reshape; square shapes broadcast silently)",
 "C19-a3": "HomogeneousPoissonEncoder online when the consumer keeps the yielded slices (one buffer re-used and overwritten)",
 "C19-b3": "PoissonIntervalEncoder offline with exact-zero intensities (collision-avoidance increment lost its mask)",
 "C20-a3": "Normal.params_mv with the variance passed as a tensor the caller re-reads (in-place sqrt_)",
 "C20-b3": "density / cdf on an integer-dtype support (torch.arange) with tensor-valued non-integral parameters (parameters cast to the support's dtype)",
}
for k, v in NEEDS.items():
    mp = f"/verif/seeded/{k}/meta.json"
    if not os.path.exists(mp):
        print("missing", k)
        continue
    m = json.load(open(mp))
    m["needs_to_manifest"] = v
    m["ran"] = RAN
    m["wave"] = 3
    json.dump(m, open(mp, "w"), indent=1)
print("annotated", len(NEEDS))
