"""E1: explicit-state exploration of the product (real object x reference model).

A state is identified by the shortest operation history that reaches it from a freshly
constructed real object; it is re-created by replaying that history on a fresh instance
(live torch modules do not deep-copy). Every transition is executed on the real code and
compared with the model by ``system.step``; a canonical key decides whether a successor is new.
Breadth-first, alphabet ordered simplest-first: the first counterexample is a shortest one.
"""

from __future__ import annotations

import collections

from .common import Tally


class System:
    """Interface a check implements (duck-typed)."""

    config: dict

    def build(self, history):  # -> state (impl + model), replayed WITHOUT oracle
        raise NotImplementedError

    def queries(self, state):  # non-mutating operations
        return ()

    def mutations(self, state):
        return ()

    def step(self, state, op, check=True):  # -> list[(key, message, expected, actual)]
        raise NotImplementedError

    def canon(self, state):
        raise NotImplementedError


def explore(system, tally: Tally, max_states=None, max_depth=None, initial=((),), nontrivial=None):
    """Returns dict(states, transitions, max_depth, fixpoint)."""
    seen = {}
    frontier = collections.deque()
    for h in initial:
        st = system.build(list(h))
        k = system.canon(st)
        if k not in seen:
            seen[k] = tuple(h)
            frontier.append(tuple(h))
    transitions = 0
    maxd = 0
    capped = False
    state_capped = False
    while frontier:
        hist = frontier.popleft()
        maxd = max(maxd, len(hist))
        # queries: one build, all reads
        st = system.build(list(hist))
        for op in system.queries(st):
            transitions += 1
            for key, msg, exp, act in system.step(st, op, check=True):
                tally.violation(key, {"config": system.config, "history": list(hist) + [op]}, msg, exp, act)
        if max_depth is not None and len(hist) >= max_depth:
            if any(True for _ in system.mutations(st)):
                capped = True
            continue
        for op in list(system.mutations(st)):
            st2 = system.build(list(hist))
            transitions += 1
            bad = system.step(st2, op, check=True)
            if bad:
                for key, msg, exp, act in bad:
                    tally.violation(key, {"config": system.config, "history": list(hist) + [op]}, msg, exp, act)
                continue  # do not explore beyond a violated transition
            if nontrivial is not None:
                nt = nontrivial(st2, op)
                if nt is not None:
                    tally.mark("nontrivial", nt)
            k = system.canon(st2)
            if k not in seen:
                if max_states is not None and len(seen) >= max_states:
                    capped = True
                    state_capped = True
                    continue
                seen[k] = hist + (op,)
                frontier.append(hist + (op,))
    tally.add("states", len(seen))
    tally.add("transitions", transitions)
    tally.counts["max_depth"] = max(tally.counts.get("max_depth", 0), maxd)
    if capped:
        tally.add("capped_configs")
    if state_capped:
        tally.add("state_capped_configs")
    hs = sorted(seen.values(), key=len)
    if hs:
        tally.sample({"config": system.config, "history_reaching_deepest_state": list(hs[-1])})
    return {"states": len(seen), "transitions": transitions, "max_depth": maxd, "fixpoint": not capped, "state_capped": state_capped}
