"""Shared runtime: import path of the repo under test, determinism, reporting.

Nothing here decides a property; it carries cases, violations, counts and evidence.
"""

from __future__ import annotations

import gc
import hashlib
import json
import os
import re
import sys
import time

VERIF = os.path.dirname(os.path.dirname(os.path.abspath(__file__)))
REPO = os.environ.get("VERIF_REPO", "/repo")
GUARD = "INFERNO_VERIF"


def setup_imports():
    """Put the working tree under test first on sys.path (editable install is a .pth)."""
    os.environ.setdefault(GUARD, "1")
    if REPO not in sys.path[:1]:
        sys.path.insert(0, REPO)
    import torch

    torch.set_num_threads(1)
    try:
        torch.set_num_interop_threads(1)
    except RuntimeError:
        pass
    torch.set_grad_enabled(False)
    import inferno  # noqa: F401

    got = os.path.dirname(os.path.dirname(os.path.abspath(inferno.__file__)))
    if os.path.realpath(got) != os.path.realpath(REPO):
        print(f"HARNESS-ERROR: imported inferno from {got}, expected {REPO}")
        sys.exit(2)
    gc.disable()
    return torch


def jsonable(x):
    """Best-effort conversion of cases / observations to JSON values."""
    try:
        import torch
    except Exception:  # pragma: no cover
        torch = None
    if x is None or isinstance(x, (bool, int, str)):
        return x
    if isinstance(x, float):
        if x != x:
            return "nan"
        if x in (float("inf"), float("-inf")):
            return "inf" if x > 0 else "-inf"
        return x
    if torch is not None and isinstance(x, torch.Tensor):
        return {"tensor": jsonable(x.detach().tolist()), "dtype": str(x.dtype), "shape": list(x.shape)}
    if torch is not None and isinstance(x, torch.dtype):
        return str(x)
    if isinstance(x, dict):
        return {str(k): jsonable(v) for k, v in x.items()}
    if isinstance(x, (list, tuple, set, frozenset)):
        return [jsonable(v) for v in x]
    if hasattr(x, "numerator") and hasattr(x, "denominator"):
        return float(x)
    return repr(x)


def slug(s: str, n: int = 80) -> str:
    s2 = re.sub(r"[^A-Za-z0-9_.=-]+", "_", s).strip("_")
    if len(s2) > n:
        s2 = s2[: n - 9] + "_" + hashlib.sha1(s.encode()).hexdigest()[:8]
    return s2 or "case"


def scribble(x):
    """Overwrite a tensor the harness handed to the library, after the call returned: if the library kept an alias of the
    caller's tensor instead of a copy, its stored state is corrupted and the next comparison with the model sees it."""
    import torch

    if not isinstance(x, torch.Tensor) or x.numel() == 0:
        return
    with torch.no_grad():
        if x.dtype == torch.bool:
            x.logical_not_()
        elif x.is_floating_point():
            x.mul_(-3.0).add_(7.5)
        else:
            x.add_(13)


class ContractViolation(Exception):
    """raised by a harness helper when the library broke a caller-side contract in a place where no tally is at hand;
    callers report it like any library exception, the shard pool turns an uncaught one into a violation"""

    def __init__(self, key, message):
        super().__init__(f"{key}: {message}")
        self.key, self.message = key, message


class Guard:
    """Caller-side contract for tensors handed to the library: (1) the call must not modify them in place, (2) the library must
    not keep an alias - after the call they are overwritten (``scribble``) before any state is compared with the model."""

    def __init__(self, *tensors):
        import torch

        self.t = [x for x in tensors if isinstance(x, torch.Tensor)]
        self.keep = [x.clone() for x in self.t]

    def mutated(self):
        import torch

        return [i for i, (a, b) in enumerate(zip(self.t, self.keep))
                if a.shape != b.shape or not torch.equal(torch.nan_to_num(a.float()), torch.nan_to_num(b.float()))]

    def release(self, tally=None, key=None, case=None):
        """reports an in-place modification (if a tally is given), then scribbles; returns True when the inputs came back untouched"""
        bad = self.mutated()
        if bad and tally is not None:
            i = bad[0]
            tally.violation(key or "input-mutated", case or {}, f"the call modified the caller's tensor (argument {i}) in place: "
                            f"{self.keep[i].reshape(-1).tolist()[:8]} -> {self.t[i].reshape(-1).tolist()[:8]}", self.keep[i].tolist(), self.t[i].tolist())
        for x in self.t:
            scribble(x)
        return not bad


class Violation(dict):
    """key: stable identity of *what fails* (used for known-finding matching and dedup)."""


def make_violation(key, case, message, expected=None, actual=None):
    return Violation(
        key=str(key),
        case=jsonable(case),
        message=str(message),
        expected=jsonable(expected),
        actual=jsonable(actual),
    )


class Tally:
    """Mergeable counters + violation list + samples returned by shard workers."""

    def __init__(self):
        self.counts: dict[str, int] = {}
        self.violations: list[Violation] = []
        self.samples: list = []
        self.sets: dict[str, set] = {}
        self.notes: list[str] = []

    def add(self, name, n=1):
        self.counts[name] = self.counts.get(name, 0) + n

    def mark(self, name, item):
        """Count distinct hashable items under a name (outcomes, non-trivial case keys)."""
        self.sets.setdefault(name, set()).add(item)

    def sample(self, case, limit=4):
        if len(self.samples) < limit:
            self.samples.append(jsonable(case))

    def violation(self, key, case, message, expected=None, actual=None, limit_per_key=3):
        same = sum(1 for v in self.violations if v["key"] == key)
        self.add("violations_raw")
        if same < limit_per_key:
            self.violations.append(make_violation(key, case, message, expected, actual))

    def merge(self, other: "Tally"):
        for k, v in other.counts.items():
            self.counts[k] = self.counts.get(k, 0) + v
        for k, s in other.sets.items():
            self.sets.setdefault(k, set()).update(s)
        self.violations.extend(other.violations)
        for s in other.samples:
            if len(self.samples) < 8:
                self.samples.append(s)
        self.notes.extend(other.notes)
        return self


def load_findings():
    path = os.path.join(VERIF, "known_findings.json")
    if not os.path.exists(path):
        return []
    with open(path) as f:
        return json.load(f).get("findings", [])


class Reporter:
    def __init__(self, pid: str, tier: str, seed: int, level: str):
        self.pid, self.tier, self.seed, self.level = pid, tier, seed, level
        self.t0 = time.time()
        self.tally = Tally()
        self.assumptions: list[str] = []
        self.coverage_extra: dict = {}

    # -- finishing -------------------------------------------------------------------
    def finish(self, coverage: dict, floors: dict | None = None) -> int:
        """Write evidence, print VIOLATION / KNOWN-FINDING lines, return exit code."""
        findings = [f for f in load_findings() if f.get("property") == self.pid]
        open_keys = {f["key"]: f for f in findings if f.get("status") == "open"}
        by_key: dict[str, list[Violation]] = {}
        for v in self.tally.violations:
            by_key.setdefault(v["key"], []).append(v)
        new_keys = sorted(k for k in by_key if k not in open_keys)
        known_hit = sorted(k for k in by_key if k in open_keys)

        rdir = os.path.join(VERIF, "replays", self.pid)
        if os.path.isdir(rdir):  # replay files describe the latest run only
            for f in os.listdir(rdir):
                if f.endswith(".json"):
                    os.unlink(os.path.join(rdir, f))
        lines = []
        for k in known_hit:
            lines.append(f"KNOWN-FINDING: property={self.pid} {open_keys[k].get('what', k)} [key={k}]")
        for k in new_keys:
            os.makedirs(rdir, exist_ok=True)
            # shortest case first: smallest JSON encoding
            v = min(by_key[k], key=lambda v: len(json.dumps(v["case"])))
            path = os.path.join(rdir, slug(k) + ".json")
            with open(path, "w") as f:
                json.dump({"property": self.pid, **v}, f, indent=1)
            lines.append(f"VIOLATION property={self.pid} replay={path}")
            lines.append(f"  key={k} :: {v['message']}")

        cov = dict(coverage)
        cov.setdefault("samples", self.tally.samples[:6] or ["(no sample recorded)"])
        cov["counts"] = dict(sorted(self.tally.counts.items()))
        cov["distinct"] = {k: len(s) for k, s in sorted(self.tally.sets.items())}
        cov["violation_keys_new"] = new_keys
        cov["violation_keys_known"] = known_hit
        cov.update(self.coverage_extra)
        ev = {
            "property_id": self.pid,
            "tier": self.tier,
            "seed": self.seed,
            "level": self.level,
            "coverage": cov,
            "assumptions": self.assumptions,
            "wall_s": round(time.time() - self.t0, 3),
            "violations": len(new_keys),
            "known_findings_reproduced": len(known_hit),
            "repo": REPO,
            "notes": self.tally.notes[:20],
        }
        os.makedirs(os.path.join(VERIF, "evidence"), exist_ok=True)
        with open(os.path.join(VERIF, "evidence", f"{self.pid}.json"), "w") as f:
            json.dump(ev, f, indent=1, sort_keys=False)

        # vacuity floors: a run that explored less than intended is a harness failure
        # (a run that found an unlisted violation stops expanding violated branches, so it legitimately explores less:
        # the floors guard only silent runs)
        if floors and not new_keys:
            for name, floor in floors.items():
                got = cov.get(name, self.tally.counts.get(name, len(self.tally.sets.get(name, ()))))
                if got < floor:
                    print(f"HARNESS-ERROR: vacuity floor {name}={got} < {floor}")
                    for ln in lines:
                        print(ln)
                    return 2
        for ln in lines:
            print(ln)
        summary = {k: cov[k] for k in ("states", "transitions", "evaluations", "distinct_nontrivial", "exhaustive") if k in cov}
        print(f"[{self.pid}] tier={self.tier} seed={self.seed} {summary} new_violations={len(new_keys)} "
              f"known={len(known_hit)} wall={ev['wall_s']}s")
        return 1 if new_keys else 0
