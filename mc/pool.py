"""Fork-based shard pool. A shard is (callable, args); it returns a Tally.

Workers are forked after torch is imported with one intra-op thread, so they share the
imported working tree. Shard order may be permuted by VERIF_SEED; the set of shards never is.
"""

from __future__ import annotations

import multiprocessing as mp
import os
import random
import sys
import traceback

from .common import REPO, ContractViolation, Tally, jsonable


def _run(job):
    fn, args = job
    try:
        out = fn(*args)
        if not isinstance(out, Tally):
            raise TypeError(f"shard {fn.__name__} returned {type(out)}")
        # every violation remembers the shard that found it, so that it can be re-executed without the explorer
        for v in out.violations:
            if isinstance(v.get("case"), dict) and "_shard" not in v["case"]:
                v["case"]["_shard"] = {"module": fn.__module__, "function": fn.__name__, "args": jsonable(list(args))}
        return ("ok", out)
    except ContractViolation as cv:
        return ("ok", _uncaught(fn, args, cv.key, cv.message))
    except Exception as ex:
        # An exception that escapes a shard is a harness failure - unless it was raised while library code was executing
        # (a frame of the working tree under test is on the traceback): then the library raised on an input the shard
        # considers legal at a call site that has no handler of its own, which is a violation, not a crash of the machinery.
        frames = traceback.extract_tb(ex.__traceback__)
        repo = os.path.realpath(REPO) + os.sep
        lib = [f for f in frames if os.path.realpath(f.filename).startswith(repo)]
        if lib:
            where = lib[-1]
            return ("ok", _uncaught(fn, args, f"exception:uncaught:{fn.__name__}:{type(ex).__name__}",
                                    f"{type(ex).__name__}: {ex} (raised under {os.path.relpath(where.filename, repo)}:{where.lineno} {where.name})"))
        return ("err", f"{fn.__module__}.{fn.__name__}{args!r}\n{traceback.format_exc()}")
    except BaseException:  # harness failure, never a violation
        return ("err", f"{fn.__module__}.{fn.__name__}{args!r}\n{traceback.format_exc()}")


def _uncaught(fn, args, key, message):
    t = Tally()
    t.add("shards_cut_short")
    t.violation(key, {"_shard": {"module": fn.__module__, "function": fn.__name__, "args": jsonable(list(args))},
                      "note": "the shard stopped at this point; re-execute it to reproduce"}, message)
    return t


def run_shards(jobs, seed=0, workers=None) -> Tally:
    jobs = list(jobs)
    order = list(range(len(jobs)))
    random.Random(seed).shuffle(order)
    jobs = [jobs[i] for i in order]
    workers = workers or int(os.environ.get("VERIF_WORKERS", "0")) or min(16, os.cpu_count() or 1)
    total = Tally()
    if workers <= 1 or len(jobs) <= 1:
        results = map(_run, jobs)
        for status, out in results:
            if status == "err":
                print("HARNESS-ERROR: shard crashed\n" + out)
                sys.exit(2)
            total.merge(out)
        return total
    ctx = mp.get_context("fork")
    with ctx.Pool(min(workers, len(jobs))) as pool:
        for status, out in pool.imap_unordered(_run, jobs, chunksize=1):
            if status == "err":
                print("HARNESS-ERROR: shard crashed\n" + out)
                pool.terminate()
                sys.exit(2)
            total.merge(out)
    return total
