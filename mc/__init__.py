"""Bounded exhaustive exploration machinery for mdominijanni/inferno (see /verif/DESIGN.md)."""
