#!/venv/bin/python
"""Entry point: /venv/bin/python /verif/run_check.py <ID> --tier quick|thorough [--replay FILE]

exit 0: property held on everything explored (known findings are printed, not alarms)
exit 1: at least one unlisted violation ("VIOLATION property=<id> replay=<path>")
exit 2: the machinery itself failed (crash, nondeterminism, vacuous exploration)
"""

from __future__ import annotations

import argparse
import glob
import importlib
import json
import os
import sys

HERE = os.path.dirname(os.path.abspath(__file__))
sys.path.insert(0, HERE)
os.environ.setdefault("PYTHONHASHSEED", "0")


def find_module(pid: str):
    hits = sorted(glob.glob(os.path.join(HERE, "checks", f"{pid.lower()}_*.py")))
    if not hits:
        print(f"HARNESS-ERROR: no check module for {pid}")
        sys.exit(2)
    return "checks." + os.path.basename(hits[0])[:-3]


def main():
    ap = argparse.ArgumentParser()
    ap.add_argument("pid")
    ap.add_argument("--tier", default=os.environ.get("VERIF_TIER", "quick"), choices=["quick", "thorough"])
    ap.add_argument("--replay", default=None)
    ap.add_argument("--workers", type=int, default=None)
    a = ap.parse_args()
    seed = int(os.environ.get("VERIF_SEED", "0") or 0)
    if a.workers:
        os.environ["VERIF_WORKERS"] = str(a.workers)

    from mc import common

    common.setup_imports()
    mod = importlib.import_module(find_module(a.pid.upper()))

    if a.replay:
        with open(a.replay) as f:
            rec = json.load(f)
        out = mod.replay(rec["case"])
        sh = rec["case"].get("_shard") if isinstance(rec["case"], dict) else None
        if isinstance(out, dict) and not out.get("violations") and sh:
            # re-execute the shard that found the violation and keep what it reports under the same key
            def tup(x):
                return tuple(tup(v) for v in x) if isinstance(x, list) else x

            fn = getattr(importlib.import_module(sh["module"]), sh["function"])
            t = fn(*[tup(a) for a in sh["args"]])
            same = [[v["key"], v["message"]] for v in t.violations if v["key"] == rec.get("key")]
            out = {**out, "violations": same, "re_executed_shard": sh, "all_keys_in_shard": sorted({v["key"] for v in t.violations})}
        print(json.dumps(common.jsonable(out), indent=1)[:6000])
        bad = bool(out.get("violations")) if isinstance(out, dict) else bool(out)
        if bad:
            print(f"VIOLATION property={mod.ID} replay={os.path.abspath(a.replay)}")
        sys.exit(1 if bad else 0)

    rep = common.Reporter(mod.ID, a.tier, seed, mod.LEVEL)
    code = mod.run(rep)
    sys.exit(code)


if __name__ == "__main__":
    try:
        main()
    except SystemExit:
        raise
    except BaseException:
        import traceback

        traceback.print_exc()
        print("HARNESS-ERROR: check crashed")
        sys.exit(2)
